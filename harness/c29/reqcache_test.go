package c29

import (
	"errors"
	"fmt"
	"sync"
	"sync/atomic"
	"time"

	"github.com/uber-go/tally"
	"github.com/uber/kraken/utils/dedup"
	"pgregory.net/rapid"

	"verif/internal/pbt"
)

// Part "reqcache": dedup.RequestCache on a harness clock. Every request blocks
// on a harness gate, so the harness decides when (and with which result) each
// execution ends; Start calls that must wait for a worker are parked on the mock
// clock and resolved by a worker becoming free or by the clock passing the busy
// timeout.

// RCStep kinds: 0 start(key), 1 complete(key,out), 2 advance(adv ms),
// 3 burst(key,n): n callers call Start(key) at the same moment (the Go scheduler picks the interleaving).
type RCStep struct {
	K   int `json:"k"`
	Key int `json:"key"`
	Out int `json:"out,omitempty"` // complete: 0 success, 1 error, 2 not-found error
	Adv int `json:"adv,omitempty"` // advance: milliseconds
	N   int `json:"n,omitempty"`   // burst: callers
	R   int `json:"r,omitempty"`   // burst: rounds; a request started by a round is completed successfully before the next
}

type RCCase struct {
	Workers     int      `json:"workers"`
	Keys        int      `json:"keys"`
	NotFoundTTL int      `json:"not_found_ttl_ms"`
	ErrorTTL    int      `json:"error_ttl_ms"`
	Cleanup     int      `json:"cleanup_ms"`
	Busy        int      `json:"busy_ms"`
	Steps       []RCStep `json:"steps"`
}

func genRC(t *rapid.T) RCCase {
	c := RCCase{
		Workers:     rapid.IntRange(1, 2).Draw(t, "workers"),
		Keys:        rapid.IntRange(2, 3).Draw(t, "keys"),
		NotFoundTTL: rapid.SampledFrom([]int{2000, 6000, 15000}).Draw(t, "nfttl"),
		ErrorTTL:    rapid.SampledFrom([]int{2000, 6000, 15000}).Draw(t, "errttl"),
		Cleanup:     rapid.SampledFrom([]int{1000, 5000, 20000}).Draw(t, "cleanup"),
		Busy:        rapid.SampledFrom([]int{1000, 5000}).Draw(t, "busy"),
	}
	advs := []int{300, 1000, c.Busy - 100, c.Busy + 100, c.ErrorTTL - 100, c.ErrorTTL, c.ErrorTTL + 100,
		c.NotFoundTTL - 100, c.NotFoundTTL + 100, c.Cleanup + 100, 40000}
	n := rapid.IntRange(3, 30).Draw(t, "nsteps")
	for i := 0; i < n; i++ {
		s := RCStep{K: rapid.SampledFrom([]int{0, 0, 0, 0, 0, 1, 1, 1, 1, 2, 2, 2, 3}).Draw(t, "k")}
		switch s.K {
		case 0:
			s.Key = rapid.IntRange(0, c.Keys-1).Draw(t, "key")
		case 1:
			s.Key = rapid.IntRange(0, c.Keys-1).Draw(t, "key")
			s.Out = rapid.SampledFrom([]int{0, 1, 1, 2}).Draw(t, "out")
		case 2:
			s.Adv = rapid.SampledFrom(advs).Draw(t, "adv")
		case 3:
			s.Key = rapid.IntRange(0, c.Keys-1).Draw(t, "key")
			s.N = rapid.IntRange(2, 6).Draw(t, "n")
			s.R = rapid.IntRange(1, 6).Draw(t, "r")
		}
		c.Steps = append(c.Steps, s)
	}
	return c
}

var errRCNotFound = errors.New("c29: blob not found")

type rcExec struct {
	key     int
	n, tot  int32
	gid     int64
	release chan error
}

type rcCall struct {
	id       int
	key      int
	gid      int64
	deadline int64
}

type rcResult struct {
	call *rcCall
	err  error
}

type rcCached struct {
	err error
	exp int64
}

type rcH struct {
	c   RCCase
	clk *cclock
	rc  *dedup.RequestCache
	now int64

	entered  chan *rcExec
	results  chan rcResult
	inflight [4]int32
	total    int32
	wg       sync.WaitGroup
	allExecs []*rcExec

	// model
	exec    map[int]*rcExec
	cached  map[int]*rcCached
	waiters []*rcCall
	stash   []*rcExec

	cls          map[string]bool
	nextID       int
	errSeq       int
	dedupAnswers int
	execs        int
}

func rcName(key int) string { return fmt.Sprintf("k%d", key) }

func (h *rcH) request(key int) dedup.Request {
	return func() error {
		e := &rcExec{key: key, gid: gid(), release: make(chan error, 1)}
		e.n = atomic.AddInt32(&h.inflight[key], 1)
		e.tot = atomic.AddInt32(&h.total, 1)
		h.entered <- e
		err := <-e.release
		atomic.AddInt32(&h.inflight[key], -1)
		atomic.AddInt32(&h.total, -1)
		return err
	}
}

func (h *rcH) launch(key int) *rcCall { return h.launchAt(key, nil) }

func (h *rcH) launchAt(key int, barrier *spinBarrier) *rcCall {
	h.nextID++
	call := &rcCall{id: h.nextID, key: key}
	ready := make(chan struct{})
	h.wg.Add(1)
	go func() {
		defer h.wg.Done()
		call.gid = gid()
		close(ready)
		if barrier != nil {
			barrier.wait()
		}
		var err error
		func() {
			defer func() {
				if r := recover(); r != nil {
					err = fmt.Errorf("c29: Start panicked: %v", r)
				}
			}()
			err = h.rc.Start(rcName(key), h.request(key))
		}()
		h.results <- rcResult{call, err}
	}()
	<-ready
	return call
}

func (h *rcH) checkEntry(e *rcExec) *pbt.Verdict {
	h.allExecs = append(h.allExecs, e)
	if e.n > 1 {
		v := pbt.Fail("RequestCache: %d executions in flight for one key (key k%d started again while its request was still running)", e.n, e.key)
		return &v
	}
	if int(e.tot) > h.c.Workers {
		v := pbt.Fail("RequestCache: %d executions in flight with NumWorkers=%d (key k%d)", e.tot, h.c.Workers, e.key)
		return &v
	}
	return nil
}

// next returns the next result or entry; kind is "deadlock" or "timeout" if none can / did come.
func (h *rcH) next() (r *rcResult, e *rcExec, kind string) {
	var d *dog
	for {
		select {
		case rr := <-h.results:
			return &rr, nil, ""
		case e := <-h.entered:
			return nil, e, ""
		case <-time.After(dogTick):
			if d == nil {
				d = newDog()
			}
			if k := d.tick(); k != "" {
				return nil, nil, k
			}
		}
	}
}

func (h *rcH) isWaiter(call *rcCall) bool {
	for _, w := range h.waiters {
		if w == call {
			return true
		}
	}
	return false
}

func (h *rcH) dropWaiter(call *rcCall) {
	out := h.waiters[:0]
	for _, w := range h.waiters {
		if w != call {
			out = append(out, w)
		}
	}
	h.waiters = out
}

// strayResult handles the result of a parked Start that the current step did not provoke.
func (h *rcH) strayResult(r *rcResult) *pbt.Verdict {
	if r.err == dedup.ErrWorkersBusy && h.isWaiter(r.call) {
		// Earlier than the model's deadline; the statement does not fix when a
		// waiting start gives up, only what it leaves behind.
		h.dropWaiter(r.call)
		h.cls["early-workers-busy"] = true
		return nil
	}
	v := pbt.Fail("RequestCache: Start(k%d) that was waiting for a worker returned %q although no worker was released and its busy timeout had not elapsed", r.call.key, fmt.Sprint(r.err))
	return &v
}

func (h *rcH) awaitResult(call *rcCall) (error, *pbt.Verdict) {
	for {
		r, e, kind := h.next()
		if kind != "" {
			v := stall(kind, fmt.Sprintf("RequestCache: Start(k%d) did not return", call.key), call.gid)
			return nil, &v
		}
		if e != nil {
			if v := h.checkEntry(e); v != nil {
				return nil, v
			}
			h.stash = append(h.stash, e)
			continue
		}
		if r.call == call {
			return r.err, nil
		}
		if v := h.strayResult(r); v != nil {
			return nil, v
		}
	}
}

// awaitWaiterResult waits for the result of any Start in set.
func (h *rcH) awaitWaiterResult(set []*rcCall, what string) (*rcResult, *pbt.Verdict) {
	for {
		r, e, kind := h.next()
		if kind != "" {
			var ids []int64
			for _, c := range set {
				ids = append(ids, c.gid)
			}
			v := stall(kind, what, ids...)
			return nil, &v
		}
		if e != nil {
			if v := h.checkEntry(e); v != nil {
				return nil, v
			}
			h.stash = append(h.stash, e)
			continue
		}
		for _, c := range set {
			if c == r.call {
				return r, nil
			}
		}
		if v := h.strayResult(r); v != nil {
			return nil, v
		}
	}
}

func (h *rcH) awaitEntry(key int, callGid int64) (*rcExec, *pbt.Verdict) {
	for {
		for i, e := range h.stash {
			if e.key == key {
				h.stash = append(h.stash[:i], h.stash[i+1:]...)
				return e, nil
			}
		}
		r, e, kind := h.next()
		if kind != "" {
			v := stall(kind, fmt.Sprintf("RequestCache: Start(k%d) reported success but its request did not run", key), callGid)
			return nil, &v
		}
		if e != nil {
			if v := h.checkEntry(e); v != nil {
				return nil, v
			}
			h.stash = append(h.stash, e)
			continue
		}
		if v := h.strayResult(r); v != nil {
			return nil, v
		}
	}
}

// settle checks that nothing ran that the step did not account for.
func (h *rcH) settle() *pbt.Verdict {
	for {
		select {
		case e := <-h.entered:
			if v := h.checkEntry(e); v != nil {
				return v
			}
			h.stash = append(h.stash, e)
			continue
		case r := <-h.results:
			if v := h.strayResult(&r); v != nil {
				return v
			}
			continue
		default:
		}
		break
	}
	if len(h.stash) > 0 {
		e := h.stash[0]
		v := pbt.Fail("RequestCache: the request of key k%d was executed although no Start for it reported success", e.key)
		return &v
	}
	return nil
}

func (h *rcH) hasWaiterFor(key int) bool {
	for _, w := range h.waiters {
		if w.key == key {
			return true
		}
	}
	return false
}

func (h *rcH) start(key int) *pbt.Verdict {
	if h.hasWaiterFor(key) {
		h.cls["skip-start-while-same-key-waits-for-worker"] = true
		return nil
	}
	ce := h.cached[key]
	either := false
	var want error
	switch {
	case h.exec[key] != nil:
		want = dedup.ErrRequestPending
	case ce != nil && h.now < ce.exp:
		want = ce.err
	case ce != nil && h.now == ce.exp:
		either = true // the statement does not say whether the TTL bound is inclusive
	}
	if want != nil {
		call := h.launch(key)
		err, v := h.awaitResult(call)
		if v != nil {
			return v
		}
		if err != want {
			if want == dedup.ErrRequestPending {
				v := pbt.Fail("RequestCache: Start(k%d) while its request is pending returned %q, want ErrRequestPending", key, fmt.Sprint(err))
				return &v
			}
			v := pbt.Fail("RequestCache: Start(k%d) with an unexpired cached error (expires in %d ms) returned %q, want the cached error %q", key, ce.exp-h.now, fmt.Sprint(err), want.Error())
			return &v
		}
		h.dedupAnswers++
		if want == dedup.ErrRequestPending {
			h.cls["pending-reported"] = true
		} else if want == errRCNotFound {
			h.cls["cached-notfound-reported"] = true
		} else {
			h.cls["cached-error-reported"] = true
		}
		return h.settle()
	}
	// The key is startable.
	if len(h.exec) < h.c.Workers {
		call := h.launch(key)
		err, v := h.awaitResult(call)
		if v != nil {
			return v
		}
		if either && err == ce.err {
			h.cls["ttl-boundary"] = true
			return h.settle()
		}
		if err != nil {
			v := pbt.Fail("RequestCache: Start(k%d) returned %q although the key is not pending, has no unexpired cached error, and a worker is free", key, fmt.Sprint(err))
			return &v
		}
		e, v := h.awaitEntry(key, call.gid)
		if v != nil {
			return v
		}
		h.exec[key] = e
		h.execs++
		if ce != nil {
			h.cls["rerun-after-error-expired"] = true
		}
		return h.settle()
	}
	// Every worker is busy: Start must wait on the clock.
	before := h.clk.nAfters()
	call := h.launch(key)
	for {
		if kind := waitUntil(func() bool { return h.clk.nAfters() > before || len(h.results) > 0 || len(h.entered) > 0 }); kind != "" {
			v := stall(kind, fmt.Sprintf("RequestCache: Start(k%d) with all workers busy neither returned nor waited on the clock", key), call.gid)
			return &v
		}
		var r *rcResult
		select {
		case e := <-h.entered:
			if v := h.checkEntry(e); v != nil {
				return v
			}
			h.stash = append(h.stash, e)
			continue
		case rr := <-h.results:
			r = &rr
		default:
		}
		if r == nil {
			break // timer registered, nothing returned: the call is parked on the clock
		}
		if r.call != call {
			if v := h.strayResult(r); v != nil {
				return v
			}
			continue
		}
		if either && r.err == ce.err {
			h.cls["ttl-boundary"] = true
			return h.settle()
		}
		if r.err == dedup.ErrWorkersBusy {
			h.cls["early-workers-busy"] = true
			return h.settle()
		}
		if r.err == nil {
			// It claims to run: the entry check reports the worker bound.
			if _, v := h.awaitEntry(key, call.gid); v != nil {
				return v
			}
		}
		v := pbt.Fail("RequestCache: Start(k%d) with all %d workers busy returned %q without waiting", key, h.c.Workers, fmt.Sprint(r.err))
		return &v
	}
	call.deadline = h.now + int64(h.c.Busy)
	h.waiters = append(h.waiters, call)
	h.cls["start-waits-for-worker"] = true
	return nil
}

// burst lets n callers race through Start(key). Whatever the interleaving, at
// most one of them may start the request; the others report the key's state.
func (h *rcH) burst(key, n int) *pbt.Verdict {
	ce := h.cached[key]
	startable := h.exec[key] == nil && (ce == nil || h.now > ce.exp)
	if n < 2 || n > 8 || len(h.waiters) > 0 || (ce != nil && h.now == ce.exp && h.exec[key] == nil) ||
		(startable && len(h.exec) >= h.c.Workers) {
		h.cls["skip-burst"] = true
		return nil
	}
	barrier := &spinBarrier{}
	set := map[*rcCall]bool{}
	var calls []*rcCall
	for i := 0; i < n; i++ {
		c := h.launchAt(key, barrier)
		set[c] = true
		calls = append(calls, c)
	}
	barrier.open()
	started, pending := 0, 0
	for len(set) > 0 {
		r, v := h.awaitWaiterResult(calls, fmt.Sprintf("RequestCache: concurrent Start(k%d) calls did not return", key))
		if v != nil {
			return v
		}
		if !set[r.call] {
			v := pbt.Fail("harness: duplicate result of a Start call")
			return &v
		}
		delete(set, r.call)
		switch {
		case h.exec[key] != nil:
			if r.err != dedup.ErrRequestPending {
				v := pbt.Fail("RequestCache: Start(k%d) while its request is pending returned %q, want ErrRequestPending", key, fmt.Sprint(r.err))
				return &v
			}
		case !startable:
			if r.err != ce.err {
				v := pbt.Fail("RequestCache: Start(k%d) with an unexpired cached error (expires in %d ms) returned %q, want the cached error %q", key, ce.exp-h.now, fmt.Sprint(r.err), ce.err.Error())
				return &v
			}
		case r.err == nil:
			started++
		case r.err == dedup.ErrRequestPending:
			pending++
		default:
			v := pbt.Fail("RequestCache: one of %d concurrent Start(k%d) calls on a startable key with a free worker returned %q", n, key, fmt.Sprint(r.err))
			return &v
		}
	}
	h.dedupAnswers += n - started
	if !startable {
		h.cls["burst-all-answered-from-state"] = true
		return h.settle()
	}
	if started > 1 {
		// the gate's in-flight counter reports it
		for i := 0; i < started; i++ {
			if _, v := h.awaitEntry(key, calls[0].gid); v != nil {
				return v
			}
		}
		v := pbt.Fail("RequestCache: %d of %d concurrent Start(k%d) calls reported success", started, n, key)
		return &v
	}
	if started == 0 {
		v := pbt.Fail("RequestCache: all %d concurrent Start(k%d) calls reported a pending request although none of them started it", n, key)
		return &v
	}
	e, v := h.awaitEntry(key, calls[0].gid)
	if v != nil {
		return v
	}
	h.exec[key] = e
	h.execs++
	h.cls["burst-one-started"] = true
	return h.settle()
}

func (h *rcH) errFor(out int) error {
	switch out {
	case 1:
		h.errSeq++
		return fmt.Errorf("c29: backend error #%d", h.errSeq)
	case 2:
		return errRCNotFound
	}
	return nil
}

func (h *rcH) complete(key, out int) *pbt.Verdict {
	e := h.exec[key]
	if e == nil {
		h.cls["skip-complete-nothing-running"] = true
		return nil
	}
	err := h.errFor(out)
	e.release <- err
	if kind := waitGone(e.gid); kind != "" {
		v := stall(kind, fmt.Sprintf("RequestCache: goroutine of the finished request k%d did not end", key), e.gid)
		return &v
	}
	delete(h.exec, key)
	if err != nil {
		ttl := h.c.ErrorTTL
		if err == errRCNotFound {
			ttl = h.c.NotFoundTTL
		}
		h.cached[key] = &rcCached{err: err, exp: h.now + int64(ttl)}
	}
	if len(h.waiters) > 0 {
		// A worker is free again and starts are waiting for one: one of them gets it.
		r, v := h.awaitWaiterResult(h.waiters, "RequestCache: no waiting Start took the released worker")
		if v != nil {
			return v
		}
		if r.err != nil {
			v := pbt.Fail("RequestCache: Start(k%d) waiting for a worker returned %q after a worker became free before its busy timeout", r.call.key, fmt.Sprint(r.err))
			return &v
		}
		h.dropWaiter(r.call)
		e2, v := h.awaitEntry(r.call.key, r.call.gid)
		if v != nil {
			return v
		}
		h.exec[r.call.key] = e2
		h.execs++
		h.cls["waiter-got-released-worker"] = true
	}
	return h.settle()
}

func (h *rcH) advance(d int) *pbt.Verdict {
	h.clk.Add(ms(d))
	h.now += int64(d)
	var due []*rcCall
	for _, w := range h.waiters {
		if w.deadline <= h.now {
			due = append(due, w)
		}
	}
	for len(due) > 0 {
		r, v := h.awaitWaiterResult(due, "RequestCache: Start did not return after its busy timeout elapsed")
		if v != nil {
			return v
		}
		if r.err != dedup.ErrWorkersBusy {
			if r.err == nil {
				if _, v := h.awaitEntry(r.call.key, r.call.gid); v != nil {
					return v
				}
			}
			v := pbt.Fail("RequestCache: Start(k%d) returned %q after waiting out the busy timeout with all workers busy, want ErrWorkersBusy", r.call.key, fmt.Sprint(r.err))
			return &v
		}
		h.dropWaiter(r.call)
		out := due[:0]
		for _, w := range due {
			if w != r.call {
				out = append(out, w)
			}
		}
		due = out
		h.cls["workers-busy-returned"] = true
	}
	return h.settle()
}

func (h *rcH) teardown() {
	done := make(chan struct{})
	var dwg sync.WaitGroup
	var extra []*rcExec
	dwg.Add(1)
	go func() {
		defer dwg.Done()
		for {
			select {
			case e := <-h.entered:
				extra = append(extra, e)
				e.release <- nil
			case <-h.results:
			case <-done:
				return
			}
		}
	}()
	for _, e := range h.allExecs {
		select {
		case e.release <- nil:
		default:
		}
	}
	h.clk.Add(time.Hour)
	fin := make(chan struct{})
	go func() { h.wg.Wait(); close(fin) }()
	select {
	case <-fin:
	case <-time.After(10 * time.Second):
	}
	close(done)
	dwg.Wait()
	for _, e := range append(h.allExecs, extra...) {
		select {
		case e.release <- nil:
		default:
		}
		poll(5*time.Second, func() bool { _, ok := dump()[e.gid]; return !ok })
	}
}

func runRC(c RCCase) pbt.Verdict {
	if c.Workers < 1 || c.Keys < 1 || c.Keys > 4 || c.NotFoundTTL <= 0 || c.ErrorTTL <= 0 || c.Cleanup <= 0 || c.Busy <= 0 {
		return pbt.Verdict{Discard: true}
	}
	clk := newCClock()
	h := &rcH{
		c: c, clk: clk,
		entered: make(chan *rcExec, 256), results: make(chan rcResult, 256),
		exec: map[int]*rcExec{}, cached: map[int]*rcCached{}, cls: map[string]bool{},
	}
	h.rc = dedup.NewRequestCache(dedup.RequestCacheConfig{
		NotFoundTTL: ms(c.NotFoundTTL), ErrorTTL: ms(c.ErrorTTL), CleanupInterval: ms(c.Cleanup),
		NumWorkers: c.Workers, BusyTimeout: ms(c.Busy),
	}, clk, tally.NoopScope)
	h.rc.SetNotFound(func(err error) bool { return err == errRCNotFound })
	defer h.teardown()

	for _, s := range c.Steps {
		var v *pbt.Verdict
		if s.Key < 0 || s.Key >= c.Keys {
			continue
		}
		switch s.K {
		case 0:
			v = h.start(s.Key)
		case 1:
			v = h.complete(s.Key, s.Out)
		case 2:
			if s.Adv > 0 {
				v = h.advance(s.Adv)
			}
		case 3:
			for r := 0; r < s.R && r < 6 && v == nil; r++ {
				if r > 0 {
					if h.exec[s.Key] == nil {
						break
					}
					if v = h.complete(s.Key, 0); v != nil {
						break
					}
				}
				v = h.burst(s.Key, s.N)
			}
		}
		if v != nil {
			return *v
		}
	}

	// Epilogue: finish everything, let every waiting start and every cached error
	// run out, then every key must be startable again: nothing stays pending.
	for guard := 0; len(h.exec) > 0 && guard < 100; guard++ {
		for k := 0; k < c.Keys; k++ {
			if h.exec[k] != nil {
				if v := h.complete(k, 0); v != nil {
					return *v
				}
				break
			}
		}
	}
	far := c.ErrorTTL
	for _, x := range []int{c.NotFoundTTL, c.Busy} {
		if x > far {
			far = x
		}
	}
	if v := h.advance(far + 1000); v != nil {
		return *v
	}
	if len(h.waiters) > 0 || len(h.exec) > 0 {
		return pbt.Fail("harness: epilogue left %d waiters and %d executions", len(h.waiters), len(h.exec))
	}
	for k := 0; k < c.Keys; k++ {
		call := h.launch(k)
		err, v := h.awaitResult(call)
		if v != nil {
			return *v
		}
		if err != nil {
			return pbt.Fail("RequestCache: after every request finished and every cached error and busy wait ran out, Start(k%d) still returned %q: the key stayed pending or its error outlived its TTL", k, fmt.Sprint(err))
		}
		e, v := h.awaitEntry(k, call.gid)
		if v != nil {
			return *v
		}
		h.exec[k] = e
		if v := h.complete(k, 0); v != nil {
			return *v
		}
	}
	nontrivial := h.dedupAnswers >= 1 && h.execs >= 2
	return pbt.OK(nontrivial, classList(h.cls)...)
}
