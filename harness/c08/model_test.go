package c08

// Reference model of the capacity-bounded LRU blob store, written from the property
// statement and the documentation of memory.Store / disk.Store (scoped_store.go):
//
//   * Create reserves sizeBytes; new blobs are incomplete and not evictable.
//   * MarkComplete enlists the blob for LRU eviction unless eviction is banned; idempotent;
//     metadata that is not movable does not survive it.
//   * Open refreshes the blob's LRU position.
//   * Ban/UnbanEviction are idempotent; unbanning a complete blob enlists it (as most recent).
//   * When a Create does not fit, least-recently-used evictable blobs are evicted until it
//     does; if nothing evictable is left the Create fails with "no space".
//   * A scoped view hides out-of-scope blobs from List and answers ErrOutOfScope for them.
//   * Stat reports the number of bytes actually written, whatever was reserved.
//
// The per-blob byte content follows the "ordinary file" model of C12; every handle has its
// own offset. A blob value is one *generation*: deleting or evicting it marks it dead and a
// later Create of the same key makes a new generation.

import "sort"

const (
	scopeAny = iota
	scopeComplete
	scopeIncomplete
)

type errClass int

const (
	eNone errClass = iota
	eExist
	eNotExist
	eOutOfScope
	eNoSpace
	eEvicted
	eOther
)

func (e errClass) String() string {
	return [...]string{"nil", "os.ErrExist", "os.ErrNotExist", "ErrOutOfScope", "ErrNoSpace", "ErrEvicted", "other error"}[e]
}

type mdVal struct {
	movable bool
	val     []byte
}

type mBlob struct {
	key      string
	gen      int
	reserved uint64
	complete bool
	banned   bool
	dead     bool
	data     []byte
	md       map[string]mdVal
}

type mHandle struct {
	b   *mBlob
	off int64
}

type model struct {
	capacity uint64
	size     uint64
	blobs    map[string]*mBlob
	lru      []string // front (index 0) is evicted first
	gens     int
	// per-key history for evidence
	generations map[string]int
}

func newModel(capacity uint64) *model {
	return &model{capacity: capacity, blobs: map[string]*mBlob{}, generations: map[string]int{}}
}

// undoEvictions restores the blobs a failed create evicted (see run: a Create that can
// never fit may either evict on the way, as today, or leave the store untouched).
func (m *model) undoEvictions(lruBefore []string, evicted []*mBlob) {
	for _, b := range evicted {
		b.dead = false
		m.blobs[b.key] = b
		m.size += b.reserved
	}
	m.lru = append([]string(nil), lruBefore...)
}

func (m *model) inScope(b *mBlob, scope int) bool {
	switch scope {
	case scopeComplete:
		return b.complete
	case scopeIncomplete:
		return !b.complete
	}
	return true
}

// lookup resolves key through scope.
func (m *model) lookup(key string, scope int) (*mBlob, errClass) {
	b, ok := m.blobs[key]
	if !ok {
		return nil, eNotExist
	}
	if !m.inScope(b, scope) {
		return nil, eOutOfScope
	}
	return b, eNone
}

func (m *model) lruRemove(key string) {
	out := m.lru[:0]
	for _, k := range m.lru {
		if k != key {
			out = append(out, k)
		}
	}
	m.lru = out
}

func (m *model) lruHas(key string) bool {
	for _, k := range m.lru {
		if k == key {
			return true
		}
	}
	return false
}

func (m *model) drop(b *mBlob) {
	b.dead = true
	delete(m.blobs, b.key)
	m.lruRemove(b.key)
	if b.reserved > m.size {
		m.size = 0
	} else {
		m.size -= b.reserved
	}
}

// create returns the new generation, or the error class; evicted lists the blobs evicted
// on the way (also when the create finally fails for lack of space).
func (m *model) create(key string, size uint64) (b *mBlob, ec errClass, evicted []*mBlob) {
	if _, ok := m.blobs[key]; ok {
		return nil, eExist, nil
	}
	for m.size+size > m.capacity {
		if len(m.lru) == 0 {
			return nil, eNoSpace, evicted
		}
		v := m.blobs[m.lru[0]]
		m.drop(v)
		evicted = append(evicted, v)
	}
	m.size += size
	m.gens++
	m.generations[key]++
	b = &mBlob{key: key, gen: m.gens, reserved: size, md: map[string]mdVal{}}
	m.blobs[key] = b
	return b, eNone, evicted
}

func (m *model) open(key string, scope int) (*mBlob, errClass) {
	b, ec := m.lookup(key, scope)
	if ec != eNone {
		return nil, ec
	}
	if m.lruHas(key) {
		m.lruRemove(key)
		m.lru = append(m.lru, key)
	}
	return b, eNone
}

func (m *model) markComplete(key string) errClass {
	b, ok := m.blobs[key]
	if !ok {
		return eNotExist
	}
	if b.complete {
		return eNone
	}
	b.complete = true
	if !b.banned {
		m.lru = append(m.lru, key)
	}
	for s, v := range b.md {
		if !v.movable {
			delete(b.md, s)
		}
	}
	return eNone
}

func (m *model) del(key string, scope int) errClass {
	b, ec := m.lookup(key, scope)
	if ec != eNone {
		return ec
	}
	m.drop(b)
	return eNone
}

func (m *model) ban(key string, scope int) errClass {
	b, ec := m.lookup(key, scope)
	if ec != eNone {
		return ec
	}
	if b.banned {
		return eNone
	}
	b.banned = true
	m.lruRemove(key)
	return eNone
}

func (m *model) unban(key string, scope int) errClass {
	b, ec := m.lookup(key, scope)
	if ec != eNone {
		return ec
	}
	if !b.banned {
		return eNone
	}
	b.banned = false
	if b.complete {
		m.lru = append(m.lru, key)
	}
	return eNone
}

func (m *model) list(scope int) []string {
	var out []string
	for k, b := range m.blobs {
		if m.inScope(b, scope) {
			out = append(out, k)
		}
	}
	sort.Strings(out)
	return out
}

// ---- file model (C12) on a live generation -------------------------------------------

func (h *mHandle) write(p []byte) int {
	if len(p) == 0 {
		return 0
	}
	h.b.data = writeAt(h.b.data, p, h.off)
	h.off += int64(len(p))
	return len(p)
}

func (h *mHandle) writeAt(p []byte, off int64) int {
	if len(p) == 0 {
		return 0
	}
	h.b.data = writeAt(h.b.data, p, off)
	return len(p)
}

func writeAt(data, p []byte, off int64) []byte {
	end := off + int64(len(p))
	if end > int64(len(data)) {
		nd := make([]byte, end) // the gap, if any, reads as zeros
		copy(nd, data)
		data = nd
	}
	copy(data[off:], p)
	return data
}

func readAt(data []byte, n int, off int64) []byte {
	if n <= 0 || off >= int64(len(data)) {
		return nil
	}
	end := off + int64(n)
	if end > int64(len(data)) {
		end = int64(len(data))
	}
	return data[off:end]
}

func (h *mHandle) read(n int) []byte {
	out := readAt(h.b.data, n, h.off)
	h.off += int64(len(out))
	return out
}
