package c08

// Stress part: the interleaving between handle users and evictions cannot be owned by the
// harness (the window is inside memory.File / memory.Store, no caller-supplied code runs in
// it), so this part states an invariant that must hold under EVERY interleaving and lets
// the Go scheduler pick interleavings (GOMAXPROCS >= 4; the thorough tier builds with -race):
//
//   * a read through a handle returns exactly the bytes of the generation the handle was
//     opened on (every generation is filled with its own tag byte and completed before it
//     can be opened through the complete-only view), or ErrEvicted with 0 bytes;
//   * once a handle answered ErrEvicted (or Size -1) every later call answers the same,
//     also after the key was re-created with another tag ("never stale or foreign bytes");
//   * the creator is the only goroutine that changes which blobs exist; after each of its
//     Create/Delete calls has RETURNED it asks Has for every key and publishes, per key, the
//     tag of the generation that is still there (0 = none). A handle of generation (key, tag)
//     whose user finds another value published BEFORE it starts an operation is a handle of
//     a blob that is already evicted or deleted, so that operation must fail with ErrEvicted
//     / Size -1 and transfer nothing -- whatever the handle's users were doing at the moment
//     of the eviction ("once a blob is evicted or deleted, every operation on a handle
//     opened earlier fails with the evicted error");
//   * the creator itself never fails: all other blobs are complete and evictable, and its
//     own blob is incomplete (not evictable) while it writes.
//
// No wall-clock is used: the creator advances a round only after the other goroutines made
// progress (an operation counter), and everything stops when the creator's script ends.

import (
	"bytes"
	"fmt"
	"math"
	"runtime"
	"sync"
	"sync/atomic"

	"github.com/uber-go/tally"
	"github.com/uber/kraken/lib/store/memory"
	"pgregory.net/rapid"

	"verif/internal/pbt"
)

type ROp struct {
	K   string `json:"k"` // read | readat | seek | size
	N   int    `json:"n,omitempty"`
	Off int    `json:"off,omitempty"` // taken modulo the blob size (+1 for seek)
}

type StressCase struct {
	Keys     int   `json:"keys"`            // 2..4 key names, re-used across generations
	BlobSize int   `json:"blob_size"`       // bytes per blob (before scaling)
	Scale    int   `json:"scale,omitempty"` // 0/1 = small blobs; otherwise blob size, read/write lengths and offsets are multiplied by it (long copies under the per-blob lock)
	Fit      int   `json:"fit"`             // how many blobs fit in the store (< Keys, so creating evicts)
	Readers  int   `json:"readers"`
	Writers  int   `json:"writers"`
	Rounds   int   `json:"rounds"`
	Script   []int `json:"script"` // creator: per round v -> key v%Keys; (v/Keys)%4==0 -> Delete instead of Create
	Plan     []ROp `json:"plan"`   // readers cycle through this
}

func genStress(t *rapid.T) StressCase {
	c := StressCase{
		Keys:     rapid.IntRange(2, 4).Draw(t, "keys"),
		BlobSize: rapid.IntRange(4, 32).Draw(t, "blob_size"),
		Readers:  rapid.IntRange(1, 4).Draw(t, "readers"),
		Writers:  rapid.IntRange(0, 2).Draw(t, "writers"),
		Rounds:   rapid.IntRange(20, 120).Draw(t, "rounds"),
	}
	c.Scale = rapid.SampledFrom([]int{1, 1, 1, 1, 16, 128, 1024}).Draw(t, "scale")
	c.Fit = rapid.IntRange(1, c.Keys-1).Draw(t, "fit")
	c.Script = rapid.SliceOfN(rapid.IntRange(0, 63), 4, 24).Draw(t, "script")
	c.Plan = rapid.SliceOfN(rapid.Custom(func(t *rapid.T) ROp {
		return ROp{
			K:   rapid.SampledFrom([]string{"read", "read", "readat", "readat", "seek", "size"}).Draw(t, "k"),
			N:   rapid.IntRange(1, 16).Draw(t, "n"),
			Off: rapid.IntRange(0, 40).Draw(t, "off"),
		}
	}), 2, 12).Draw(t, "plan")
	return c
}

type stressState struct {
	c    StressCase
	st   *memory.Store
	stop chan struct{}
	ops  atomic.Int64 // progress of readers/writers
	mu   sync.Mutex
	tags map[string]map[byte]bool // every tag ever given to a key
	fail string
	// scale multiplies sizes, lengths and offsets of the case; size is the scaled blob size.
	scale int
	size  int
	// live[i] = tag of the generation of key i that the creator knows to be in the store, 0 = none.
	// Written only by the creator, and only AFTER the call that removed the generation returned
	// (Delete, or a Create after which Has says the key is gone) resp. BEFORE the generation
	// becomes visible to Open through the complete-only view (MarkComplete).
	live []atomic.Int32
	// evidence
	sawEvictionAfterRead atomic.Int64
	staleAfterRecreate   atomic.Int64
	writerEvicted        atomic.Int64
	readsOK              atomic.Int64
	goneFailedCleanly    atomic.Int64 // operations on a handle already known to be evicted/deleted that answered ErrEvicted
	heldChecked          atomic.Int64 // handles kept beyond their burst, re-checked after their generation vanished
}

// gone reports that the generation (key index, tag) is certainly no longer in the store: the
// creator published another generation (or none) for that key. Sound under every interleaving:
// live[ki] held `tag` from before the generation could be opened until after the call that
// removed it returned, so a different value means the removal is complete. (If a later
// generation of the key happens to re-use the tag the answer is "not known gone": a miss, never
// a false alarm.)
func (s *stressState) gone(ki int, tag byte) bool {
	return s.live[ki].Load() != int32(tag)
}

func (s *stressState) violation(format string, a ...interface{}) {
	s.mu.Lock()
	if s.fail == "" {
		s.fail = fmt.Sprintf(format, a...)
	}
	s.mu.Unlock()
}

func (s *stressState) failed() bool {
	s.mu.Lock()
	defer s.mu.Unlock()
	return s.fail != ""
}

func (s *stressState) stopped() bool {
	select {
	case <-s.stop:
		return true
	default:
		return false
	}
}

func (s *stressState) tagKnown(key string, tag byte) bool {
	s.mu.Lock()
	defer s.mu.Unlock()
	return s.tags[key][tag]
}

func allEqual(b []byte, tag byte) bool {
	return bytes.Count(b, []byte{tag}) == len(b)
}

func head(b []byte) []byte {
	if len(b) > 16 {
		return b[:16]
	}
	return b
}

// sticky verifies that a handle that reported eviction keeps reporting it for every call.
func (s *stressState) sticky(f *memory.File, who, key string, tag byte) {
	buf := make([]byte, 4)
	if n, err := f.Read(buf); n != 0 || classify(err) != eEvicted {
		s.violation("stale handle: read did not fail with ErrEvicted (%s, %s tag %d: Read on a handle known to be evicted: n=%d err=%v bytes %x)", who, key, tag, n, err, buf[:n])
	}
	if n, err := f.ReadAt(buf, 0); n != 0 || classify(err) != eEvicted {
		s.violation("stale handle: readat did not fail with ErrEvicted (%s, %s tag %d: ReadAt on a handle known to be evicted: n=%d err=%v bytes %x)", who, key, tag, n, err, buf[:n])
	}
	if _, err := f.Seek(0, 0); classify(err) != eEvicted {
		s.violation("stale handle: seek did not fail with ErrEvicted (%s, %s tag %d: err=%v)", who, key, tag, err)
	}
	if sz := f.Size(); sz != -1 {
		s.violation("stale handle: Size did not report eviction (%s, %s tag %d: Size() = %d, want -1)", who, key, tag, sz)
	}
	if n, err := f.WriteAt([]byte{tag}, 0); n != 0 || classify(err) != eEvicted {
		s.violation("stale handle: writeat did not fail with ErrEvicted (%s, %s tag %d: n=%d err=%v)", who, key, tag, n, err)
	}
}

func (s *stressState) reader(idx int) {
	c := s.c
	size := int64(s.size)
	scale := s.scale
	who := fmt.Sprintf("reader %d", idx)
	buf := make([]byte, 64*scale)
	type staleH struct {
		f   *memory.File
		key string
		tag byte
	}
	type heldH struct {
		f   *memory.File
		ki  int
		key string
		tag byte
	}
	var stale []staleH // handles that reported eviction, re-checked once their key exists again
	var held []heldH   // handles that were still live when their burst ended, re-checked once their generation is gone
	checkHeld := func() {
		keep := held[:0]
		for _, h := range held {
			if s.gone(h.ki, h.tag) {
				s.sticky(h.f, who+" (handle kept from an earlier burst; the creator saw the blob gone)", h.key, h.tag)
				s.heldChecked.Add(1)
			} else {
				keep = append(keep, h)
			}
		}
		held = keep
	}
	defer checkHeld() // the creator has finished (or somebody failed): its last publication is final
	for iter := 0; !s.stopped() && !s.failed(); iter++ {
		checkHeld()
		keep := stale[:0]
		for _, h := range stale {
			if in, _ := s.st.Has(h.key); in {
				// the key exists again, as another generation: the old handle must stay dead
				s.sticky(h.f, who, h.key, h.tag)
				s.staleAfterRecreate.Add(1)
			} else {
				keep = append(keep, h)
			}
		}
		stale = keep
		ki := (idx + iter) % c.Keys
		key := fmt.Sprintf("k%d", ki)
		s.ops.Add(1)
		f, err := s.st.ScopeComplete().Open(key)
		if err != nil {
			ec := classify(err)
			if ec != eNotExist && ec != eOutOfScope {
				s.violation("Open through the complete-only view failed unexpectedly (%s, %s: %v)", who, key, err)
				return
			}
			runtime.Gosched()
			continue
		}
		n, err := f.ReadAt(buf[:1], 0)
		if classify(err) == eEvicted {
			if n != 0 {
				s.violation("stale handle: readat transferred bytes (%s, %s: n=%d with ErrEvicted)", who, key, n)
			}
			s.sticky(f, who, key, 0)
			continue
		}
		if n != 1 {
			s.violation("read of a complete blob returned no bytes (%s, %s: ReadAt(1,0) n=%d err=%v)", who, key, n, err)
			return
		}
		tag := buf[0]
		if !s.tagKnown(key, tag) {
			s.violation("foreign bytes: handle of %s delivered tag %d which no generation of that key ever had (%s)", key, tag, who)
			return
		}
		var off int64
		readSome := false
		evicted := false
		for k := 0; k < 400 && !evicted && !s.stopped(); k++ {
			op := c.Plan[k%len(c.Plan)]
			s.ops.Add(1)
			knownGone := s.gone(ki, tag) // read BEFORE the operation starts
			switch op.K {
			case "read", "readat":
				at := off
				if op.K == "readat" {
					at = (int64(op.Off) * int64(scale)) % size
				}
				ask := op.N * scale
				want := int64(ask)
				if at+want > size {
					want = size - at
				}
				if want < 0 {
					want = 0
				}
				var n int
				var err error
				if op.K == "read" {
					n, err = f.Read(buf[:ask])
				} else {
					n, err = f.ReadAt(buf[:ask], at)
				}
				if classify(err) == eEvicted {
					if n != 0 {
						s.violation("stale handle: %s transferred bytes (%s, %s tag %d: n=%d with ErrEvicted)", op.K, who, key, tag, n)
					}
					evicted = true
					break
				}
				if n < 0 || n > ask {
					s.violation("live handle: %s byte count out of range (%s, %s tag %d: asked %d: got %d err %v)", op.K, who, key, tag, ask, n, err)
					return
				}
				if !allEqual(buf[:n], tag) {
					s.violation("foreign bytes: %s through a handle of %s generation tag %d returned %d bytes starting %x (%s, offset %d)", op.K, key, tag, n, head(buf[:n]), who, at)
					return
				}
				if knownGone {
					s.violation("stale handle: %s succeeded after the blob was evicted (%s, %s tag %d: the creator's Create/Delete that removed this generation had returned and Has said so before the call started; n=%d err=%v bytes %x...)", op.K, who, key, tag, n, err, head(buf[:n]))
					return
				}
				if int64(n) != want {
					s.violation("live handle: %s byte count differs from the file model (%s, %s tag %d: offset %d asked %d: got %d err %v, want %d)", op.K, who, key, tag, at, ask, n, err, want)
					return
				}
				if op.K == "read" {
					off += int64(n)
				}
				if n > 0 {
					readSome = true
					s.readsOK.Add(1)
				}
			case "seek":
				target := (int64(op.Off) * int64(scale)) % (size + 1)
				pos, err := f.Seek(target, 0)
				if classify(err) == eEvicted {
					evicted = true
					break
				}
				if knownGone {
					s.violation("stale handle: seek succeeded after the blob was evicted (%s, %s tag %d: the creator's Create/Delete that removed this generation had returned and Has said so before the call started; Seek(%d,0) = %d err %v)", who, key, tag, target, pos, err)
					return
				}
				if pos != target {
					s.violation("live handle: Seek result differs from the file model (%s, %s tag %d: Seek(%d,0) = %d err %v)", who, key, tag, target, pos, err)
					return
				}
				off = target
			case "size":
				sz := f.Size()
				if sz == -1 {
					evicted = true
					break
				}
				if knownGone {
					s.violation("stale handle: Size did not report eviction after the blob was evicted (%s, %s tag %d: the creator's Create/Delete that removed this generation had returned and Has said so before the call started; Size() = %d, want -1)", who, key, tag, sz)
					return
				}
				if sz != size {
					s.violation("live handle: Size differs from the bytes written (%s, %s tag %d: %d, want %d)", who, key, tag, sz, size)
					return
				}
			}
			if knownGone && evicted {
				s.goneFailedCleanly.Add(1)
			}
		}
		if evicted {
			if readSome {
				s.sawEvictionAfterRead.Add(1)
			}
			s.sticky(f, who, key, tag)
			if len(stale) < 8 {
				stale = append(stale, staleH{f, key, tag})
			}
		} else if len(held) < 8 {
			held = append(held, heldH{f, ki, key, tag})
		}
	}
}

func (s *stressState) writer(idx int) {
	c := s.c
	who := fmt.Sprintf("writer %d", idx)
	one := make([]byte, 1)
	scale := s.scale
	payload := make([]byte, 3*scale)
	for iter := 0; !s.stopped() && !s.failed(); iter++ {
		ki := (idx + 2*iter + 1) % c.Keys
		key := fmt.Sprintf("k%d", ki)
		s.ops.Add(1)
		f, err := s.st.ScopeComplete().Open(key)
		if err != nil {
			runtime.Gosched()
			continue
		}
		n, err := f.ReadAt(one, 0)
		if classify(err) == eEvicted || n != 1 {
			continue
		}
		tag := one[0]
		if !s.tagKnown(key, tag) {
			s.violation("foreign bytes: handle of %s delivered tag %d which no generation of that key ever had (%s)", key, tag, who)
			return
		}
		for i := range payload {
			payload[i] = tag
		}
		for k := 0; k < 200 && !s.stopped(); k++ {
			s.ops.Add(1)
			ln := (1 + k%3) * scale
			if ln > s.size {
				ln = s.size
			}
			off := int64((k * 5 * scale) % (s.size - ln + 1))
			knownGone := s.gone(ki, tag)           // read BEFORE the operation starts
			n, err := f.WriteAt(payload[:ln], off) // same bytes, inside the extent: content stays all-tag
			if classify(err) == eEvicted {
				if n != 0 {
					s.violation("stale handle: writeat transferred bytes (%s, %s tag %d: n=%d with ErrEvicted)", who, key, tag, n)
				}
				s.writerEvicted.Add(1)
				if knownGone {
					s.goneFailedCleanly.Add(1)
				}
				s.sticky(f, who, key, tag)
				break
			}
			if knownGone {
				s.violation("stale handle: writeat succeeded after the blob was evicted (%s, %s tag %d: the creator's Create/Delete that removed this generation had returned and Has said so before the call started; len %d off %d: n=%d err=%v)", who, key, tag, ln, off, n, err)
				return
			}
			if n != ln || err != nil {
				s.violation("live handle: WriteAt byte count differs from the file model (%s, %s tag %d: len %d off %d: n=%d err=%v)", who, key, tag, ln, off, n, err)
				return
			}
		}
	}
}

func (s *stressState) creator() {
	c := s.c
	nextTag := 0
	for round := 0; round < c.Rounds && !s.failed(); round++ {
		v := c.Script[round%len(c.Script)]
		ki := v % c.Keys
		key := fmt.Sprintf("k%d", ki)
		if (v/c.Keys)%4 == 0 {
			err := s.st.Delete(key)
			if err != nil && classify(err) != eNotExist {
				s.violation("Delete result differs from the model (creator round %d: Delete(%s): %v)", round, key, err)
				return
			}
			// Delete returned: whatever generation the key had is deleted (or there was none).
			s.live[ki].Store(0)
		} else {
			nextTag++
			tag := byte(1 + nextTag%250)
			s.mu.Lock()
			if s.tags[key] == nil {
				s.tags[key] = map[byte]bool{}
			}
			s.tags[key][tag] = true
			s.mu.Unlock()
			f, err := s.st.Create(key, uint64(s.size))
			switch classify(err) {
			case eExist:
				// still there: refresh its LRU position instead
				s.st.Open(key)
			case eNone:
				// Create returned. Nobody else creates or deletes, so every key that Has reports
				// missing now lost its generation to this call's evictions: publish that.
				for j := 0; j < c.Keys; j++ {
					if j == ki {
						continue
					}
					if in, _ := s.st.Has(fmt.Sprintf("k%d", j)); !in {
						s.live[j].Store(0)
					}
				}
				s.live[ki].Store(int32(tag)) // before MarkComplete: not yet visible to the complete-only view
				payload := bytes.Repeat([]byte{tag}, s.size)
				half := s.size / 2
				if n, err := f.Write(payload[:half]); n != half || err != nil {
					s.violation("live handle: Write byte count differs from the file model (creator round %d: incomplete blob %s: n=%d err=%v, want %d)", round, key, n, err, half)
					return
				}
				if n, err := f.WriteAt(payload[half:], int64(half)); n != s.size-half || err != nil {
					s.violation("live handle: WriteAt byte count differs from the file model (creator round %d: incomplete blob %s: n=%d err=%v, want %d)", round, key, n, err, s.size-half)
					return
				}
				if err := s.st.MarkComplete(key); err != nil {
					s.violation("MarkComplete result differs from the model (creator round %d: %s: %v)", round, key, err)
					return
				}
			default:
				s.violation("Create result differs from the model (creator round %d: Create(%s, %d) failed with %v although every other blob is complete and evictable; capacity %d)", round, key, s.size, err, c.Fit*s.size)
				return
			}
		}
		// let the others run: wait for progress, not for time
		base := s.ops.Load()
		need := int64(2 * (c.Readers + c.Writers))
		for s.ops.Load()-base < need && !s.failed() {
			runtime.Gosched()
		}
	}
}

func runStress(c StressCase) pbt.Verdict {
	if c.Keys < 2 || c.Keys > 8 || c.BlobSize < 1 || c.BlobSize > 4096 || c.Fit < 1 || c.Readers < 1 || c.Readers > 16 ||
		c.Writers < 0 || c.Writers > 16 || c.Rounds < 1 || c.Rounds > 5000 || len(c.Script) == 0 || len(c.Plan) == 0 {
		return pbt.Verdict{Discard: true}
	}
	for _, op := range c.Plan {
		if op.N < 1 || op.N > 64 || op.Off < 0 {
			return pbt.Verdict{Discard: true}
		}
	}
	for _, v := range c.Script {
		if v < 0 {
			return pbt.Verdict{Discard: true}
		}
	}
	scale := c.Scale
	if scale == 0 {
		scale = 1
	}
	if scale < 1 || scale > 4096 || c.BlobSize*scale > 1<<20 {
		return pbt.Verdict{Discard: true}
	}
	size := c.BlobSize * scale
	st, err := memory.NewStore(&memory.Config{GOMEMLIMITBytes: math.MaxInt64, CapacityBytes: uint64(c.Fit * size)}, tally.NoopScope)
	if err != nil {
		return pbt.Verdict{Discard: true}
	}
	s := &stressState{c: c, st: st, stop: make(chan struct{}), tags: map[string]map[byte]bool{}, scale: scale, size: size, live: make([]atomic.Int32, c.Keys)}
	var wg sync.WaitGroup
	spawn := func(name string, fn func()) {
		wg.Add(1)
		go func() {
			defer wg.Done()
			defer func() {
				if r := recover(); r != nil {
					s.violation("panic in %s: %v", name, r)
				}
			}()
			fn()
		}()
	}
	for i := 0; i < c.Readers; i++ {
		i := i
		spawn(fmt.Sprintf("reader %d", i), func() { s.reader(i) })
	}
	for i := 0; i < c.Writers; i++ {
		i := i
		spawn(fmt.Sprintf("writer %d", i), func() { s.writer(i) })
	}
	func() {
		defer close(s.stop)
		defer func() {
			if r := recover(); r != nil {
				s.violation("panic in creator: %v", r)
			}
		}()
		s.creator()
	}()
	wg.Wait()
	if s.fail != "" {
		return pbt.Fail("%s", s.fail)
	}
	var cl []string
	if s.sawEvictionAfterRead.Load() > 0 {
		cl = append(cl, "reader-saw-eviction-after-reading")
	}
	if s.staleAfterRecreate.Load() > 0 {
		cl = append(cl, "stale-handle-checked-after-recreate")
	}
	if s.writerEvicted.Load() > 0 {
		cl = append(cl, "writer-saw-eviction")
	}
	if s.readsOK.Load() > 0 {
		cl = append(cl, "reads-delivered-bytes")
	}
	if s.goneFailedCleanly.Load() > 0 {
		cl = append(cl, "op-started-after-eviction-was-published-failed-cleanly")
	}
	if s.heldChecked.Load() > 0 {
		cl = append(cl, "kept-live-handle-checked-after-its-blob-vanished")
	}
	if scale > 1 {
		cl = append(cl, "large-blobs-long-copies")
	}
	return pbt.OK(s.sawEvictionAfterRead.Load() > 0 && s.staleAfterRecreate.Load() > 0, cl...)
}
