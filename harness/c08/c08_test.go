// C08 — the memory blob store behaves like its model, and stale handles fail cleanly.
//
// Part "model": generated histories of store operations (through the three scopes) and of
// operations on up to 6 kept *memory.File handles are applied to memory.Store and to the
// reference model of model_test.go in lock-step.
// Part "stress": readers/writers on handles race with a creator that forces evictions and
// deletions and re-creates the same keys with other bytes (see stress_test.go).
package c08

import (
	"bytes"
	"errors"
	"fmt"
	"io"
	"math"
	"os"
	"sort"
	"strings"
	"testing"

	"github.com/uber-go/tally"
	storelib "github.com/uber/kraken/lib/store"
	"github.com/uber/kraken/lib/store/memory"
	"github.com/uber/kraken/lib/store/metadata"
	"pgregory.net/rapid"

	"verif/internal/pbt"
)

const (
	nKeys  = 5
	nSlots = 6
)

// Op is one step of a history.
type Op struct {
	K      string `json:"k"`
	Key    int    `json:"key,omitempty"`   // k0..k4
	Scope  int    `json:"scope,omitempty"` // 0 any, 1 complete, 2 incomplete
	Size   int    `json:"size,omitempty"`  // create: reserved bytes
	Slot   int    `json:"slot,omitempty"`  // h* ops: which kept handle, counted back from the newest (modulo the number kept; Create/Open keep theirs in a ring of 6)
	Data   []byte `json:"d,omitempty"`     // hwrite/hwriteat payload, setmd value
	N      int    `json:"n,omitempty"`     // hread/hreadat length
	Base   int    `json:"base,omitempty"`  // position = (Base==1 ? size : 0) + Delta, clamped
	Delta  int    `json:"delta,omitempty"` //
	Whence int    `json:"w,omitempty"`     // hseek
	MD     int    `json:"md,omitempty"`    // 0 movable metadata, 1 non-movable metadata
}

type Case struct {
	Capacity int  `json:"capacity"`
	Ops      []Op `json:"ops"`
}

// ---- metadata used by the histories (memory.Store needs no factory registration) --------

type testMD struct {
	suffix  string
	movable bool
	val     []byte
}

func (m *testMD) GetSuffix() string          { return m.suffix }
func (m *testMD) Movable() bool              { return m.movable }
func (m *testMD) Serialize() ([]byte, error) { return append([]byte(nil), m.val...), nil }
func (m *testMD) Deserialize(b []byte) error { m.val = append([]byte(nil), b...); return nil }

var _ metadata.Metadata = (*testMD)(nil)

func mdOf(i int, val []byte) *testMD {
	if i == 1 {
		return &testMD{suffix: "_c08_fixed", movable: false, val: val}
	}
	return &testMD{suffix: "_c08_movable", movable: true, val: val}
}

// ---- generator ------------------------------------------------------------------------

var opKinds = func() []string {
	w := []struct {
		k string
		n int
	}{
		{"create", 7}, {"complete", 3}, {"open", 4}, {"delete", 2}, {"ban", 1}, {"unban", 1},
		{"has", 1}, {"stat", 1}, {"setmd", 2}, {"getmd", 2}, {"delmd", 1}, {"listmd", 1},
		{"hread", 4}, {"hreadat", 4}, {"hwrite", 5}, {"hwriteat", 3}, {"hseek", 2}, {"hsize", 1},
	}
	var out []string
	for _, e := range w {
		for i := 0; i < e.n; i++ {
			out = append(out, e.k)
		}
	}
	return out
}()

func genPos(t *rapid.T) (int, int) {
	if rapid.IntRange(0, 3).Draw(t, "posmode") == 0 {
		return 0, rapid.IntRange(0, 24).Draw(t, "abs")
	}
	return 1, rapid.IntRange(-16, 8).Draw(t, "rel")
}

func genCase(t *rapid.T) Case {
	c := Case{Capacity: rapid.IntRange(16, 64).Draw(t, "capacity")}
	keys := rapid.IntRange(2, nKeys).Draw(t, "keys") // fewer keys => more re-creation of the same key
	n := rapid.IntRange(4, 80).Draw(t, "nops")
	for i := 0; i < n; i++ {
		op := Op{K: rapid.SampledFrom(opKinds).Draw(t, "k")}
		switch op.K {
		case "create":
			op.Key = rapid.IntRange(0, keys-1).Draw(t, "key")
			switch rapid.IntRange(0, 9).Draw(t, "sizeclass") {
			case 0:
				op.Size = rapid.IntRange(0, 3).Draw(t, "size")
			case 1:
				op.Size = rapid.IntRange(c.Capacity+1, c.Capacity+4).Draw(t, "size") // can never fit
			case 2:
				op.Size = rapid.IntRange(c.Capacity*2/3, c.Capacity).Draw(t, "size")
			case 3, 4:
				op.Size = rapid.IntRange(c.Capacity/6, c.Capacity/3).Draw(t, "size")
			default:
				op.Size = rapid.IntRange(c.Capacity/3, c.Capacity*2/3).Draw(t, "size") // one to three of these fit
			}
		case "open":
			op.Key = rapid.IntRange(0, keys-1).Draw(t, "key")
			op.Scope = rapid.SampledFrom([]int{0, 0, 0, 1, 1, 2}).Draw(t, "scope")
		case "complete":
			op.Key = rapid.IntRange(0, keys-1).Draw(t, "key")
		case "delete", "ban", "unban", "has", "stat", "listmd":
			op.Key = rapid.IntRange(0, keys-1).Draw(t, "key")
			op.Scope = rapid.SampledFrom([]int{0, 0, 0, 1, 2}).Draw(t, "scope")
		case "setmd":
			op.Key = rapid.IntRange(0, keys-1).Draw(t, "key")
			op.Scope = rapid.SampledFrom([]int{0, 0, 0, 1, 2}).Draw(t, "scope")
			op.MD = rapid.IntRange(0, 1).Draw(t, "md")
			op.Data = rapid.SliceOfN(rapid.Byte(), 0, 6).Draw(t, "val")
		case "getmd", "delmd":
			op.Key = rapid.IntRange(0, keys-1).Draw(t, "key")
			op.Scope = rapid.SampledFrom([]int{0, 0, 0, 1, 2}).Draw(t, "scope")
			op.MD = rapid.IntRange(0, 1).Draw(t, "md")
		case "hread":
			op.Slot = rapid.IntRange(0, nSlots-1).Draw(t, "slot")
			op.N = rapid.IntRange(0, 40).Draw(t, "n")
		case "hreadat":
			op.Slot = rapid.IntRange(0, nSlots-1).Draw(t, "slot")
			op.N = rapid.IntRange(0, 40).Draw(t, "n")
			op.Base, op.Delta = genPos(t)
		case "hwrite":
			op.Slot = rapid.IntRange(0, nSlots-1).Draw(t, "slot")
			op.Data = rapid.SliceOfN(rapid.ByteRange(1, 255), 0, 24).Draw(t, "data")
		case "hwriteat":
			op.Slot = rapid.IntRange(0, nSlots-1).Draw(t, "slot")
			op.Data = rapid.SliceOfN(rapid.ByteRange(1, 255), 0, 24).Draw(t, "data")
			op.Base, op.Delta = genPos(t)
		case "hseek":
			op.Slot = rapid.IntRange(0, nSlots-1).Draw(t, "slot")
			op.Base, op.Delta = genPos(t)
			op.Whence = rapid.IntRange(0, 2).Draw(t, "whence")
		case "hsize":
			op.Slot = rapid.IntRange(0, nSlots-1).Draw(t, "slot")
		}
		c.Ops = append(c.Ops, op)
		if op.K == "create" {
			// Usual life of a blob: written through the handle just obtained, then completed
			// (only complete blobs can be evicted, so this makes evictions and stale handles frequent).
			switch r := rapid.IntRange(0, 9).Draw(t, "follow"); {
			case r < 6:
				c.Ops = append(c.Ops,
					Op{K: "hwrite", Slot: 0, Data: rapid.SliceOfN(rapid.ByteRange(1, 255), 1, 24).Draw(t, "data")},
					Op{K: "complete", Key: op.Key})
				i += 2
			case r < 8:
				c.Ops = append(c.Ops, Op{K: "complete", Key: op.Key})
				i++
			case r < 9:
				// metadata of both kinds set while incomplete, read back after completion
				val := rapid.SliceOfN(rapid.Byte(), 0, 6).Draw(t, "val")
				which := rapid.IntRange(1, 3).Draw(t, "mdkinds") // bit 0: non-movable, bit 1: movable
				if which&1 != 0 {
					c.Ops = append(c.Ops, Op{K: "setmd", Key: op.Key, MD: 1, Data: val})
					i++
				}
				if which&2 != 0 {
					c.Ops = append(c.Ops, Op{K: "setmd", Key: op.Key, MD: 0, Data: val, Scope: scopeIncomplete})
					i++
				}
				c.Ops = append(c.Ops,
					Op{K: "complete", Key: op.Key},
					Op{K: "getmd", Key: op.Key, MD: 1},
					Op{K: "getmd", Key: op.Key, MD: 0, Scope: scopeComplete})
				i += 3
			}
		}
	}
	return c
}

// ---- interpreter ----------------------------------------------------------------------

func classify(err error) errClass {
	switch {
	case err == nil:
		return eNone
	case errors.Is(err, memory.ErrEvicted):
		return eEvicted
	case errors.Is(err, memory.ErrNoSpace):
		return eNoSpace
	case errors.Is(err, storelib.ErrOutOfScope):
		return eOutOfScope
	case errors.Is(err, os.ErrNotExist):
		return eNotExist
	case errors.Is(err, os.ErrExist):
		return eExist
	}
	return eOther
}

type slot struct {
	f *memory.File
	m *mHandle
}

type runner struct {
	st       *memory.Store
	m        *model
	slots    [nSlots]slot
	nextSlot int      // handles from Create/Open go to slots in ring order, so older (possibly stale) handles stay around
	universe []string // every key ever used (for Has/Stat sweeps)
	cause    map[*mBlob]string
	cl       map[string]int
	// evidence
	staleAfterRecreate int
	lruTouched         bool // an Open/ban/unban changed the LRU order before an eviction
}

func keyName(i int) string {
	if i < 0 {
		i = -i
	}
	return fmt.Sprintf("k%d", i%nKeys)
}

func (r *runner) scoped(scope int) *memory.Store {
	switch scope {
	case scopeComplete:
		return r.st.ScopeComplete()
	case scopeIncomplete:
		return r.st.ScopeIncomplete()
	}
	return r.st
}

func normScope(s int) int {
	if s < 0 || s > 2 {
		return 0
	}
	return s
}

func position(base, delta int, size int64) int64 {
	var b int64
	if base == 1 {
		b = size
	}
	p := b + int64(delta)
	if p < 0 {
		p = 0
	}
	return p
}

func (r *runner) keep(f *memory.File, b *mBlob) {
	r.slots[r.nextSlot%nSlots] = slot{f: f, m: &mHandle{b: b}}
	r.nextSlot++
}

// pick resolves a generated slot number to one of the handles kept so far.
func (r *runner) pick(n int) (slot, bool) {
	filled := r.nextSlot
	if filled > nSlots {
		filled = nSlots
	}
	if filled == 0 {
		return slot{}, false
	}
	if n < 0 {
		n = -n
	}
	// 0 = the newest handle, 1 = the one before, ...
	return r.slots[((r.nextSlot-1-n%filled)%nSlots+nSlots)%nSlots], true
}

func (r *runner) noteKey(k string) {
	for _, u := range r.universe {
		if u == k {
			return
		}
	}
	r.universe = append(r.universe, k)
}

// create runs Create on both sides. It implements the only leniency of the oracle: a Create
// that cannot fit even after evicting everything evictable fails with ErrNoSpace either
// after evicting (today's behaviour, kept by the model) or without evicting anything.
func (r *runner) create(where, key string, size uint64, generated bool) string {
	r.noteKey(key)
	lruBefore := append([]string(nil), r.m.lru...)
	mb, ec, evicted := r.m.create(key, size)
	for _, v := range evicted {
		r.cause[v] = "evicted"
	}
	f, err := r.st.Create(key, size)
	got := classify(err)
	if got != ec {
		return fmt.Sprintf("Create result differs from the model (%s: Create(%s, %d): store %s (%v), model %s; model size %d/%d lru %v)",
			where, key, size, got, err, ec, r.m.size, r.m.capacity, lruBefore)
	}
	if ec == eNone {
		if f == nil {
			return fmt.Sprintf("Create returned a nil handle without error (%s)", where)
		}
		r.keep(f, mb)
		if mb.reserved == 0 {
			r.cl["zero-size-reservation"]++
		}
	}
	if len(evicted) > 0 {
		if ec == eNoSpace {
			if generated {
				r.cl["nospace-after-evicting"]++
			}
			if in, _ := r.st.Has(evicted[0].key); in {
				r.m.undoEvictions(lruBefore, evicted) // accepted alternative: nothing evicted
				for _, v := range evicted {
					delete(r.cause, v)
				}
				r.cl["nospace-left-store-untouched"]++
			}
		} else if generated {
			r.cl["eviction"]++
			if len(evicted) > 1 {
				r.cl["eviction-of-several"]++
			}
			if r.lruTouched {
				r.cl["eviction-after-lru-reorder"]++
			}
		}
	} else if ec == eNoSpace && generated {
		r.cl["nospace"]++
	}
	return ""
}

func (r *runner) step(i int, op Op) string {
	where := fmt.Sprintf("step %d %s", i, op.K)
	key := keyName(op.Key)
	scope := normScope(op.Scope)
	mismatch := func(call string, got, want errClass, err error) string {
		return fmt.Sprintf("%s result differs from the model (%s: %s scope %d: store %s (%v), model %s)", call, where, key, scope, got, err, want)
	}
	switch op.K {
	case "create":
		sz := op.Size
		if sz < 0 {
			sz = 0
		}
		return r.create(where, key, uint64(sz), true)
	case "open":
		r.noteKey(key)
		wasBack := len(r.m.lru) > 0 && r.m.lru[len(r.m.lru)-1] == key
		mb, ec := r.m.open(key, scope)
		f, err := r.scoped(scope).Open(key)
		if got := classify(err); got != ec {
			return mismatch("Open", got, ec, err)
		}
		if ec == eNone {
			if f == nil {
				return fmt.Sprintf("Open returned a nil handle without error (%s)", where)
			}
			r.keep(f, mb)
			if r.m.lruHas(key) && !wasBack {
				r.lruTouched = true
			}
		} else if ec == eOutOfScope {
			r.cl["out-of-scope-answer"]++
		}
	case "complete":
		r.noteKey(key)
		var hadFixed bool
		if b := r.m.blobs[key]; b != nil && !b.complete {
			_, hadFixed = b.md["_c08_fixed"]
		}
		ec := r.m.markComplete(key)
		err := r.st.MarkComplete(key)
		if got := classify(err); got != ec {
			return mismatch("MarkComplete", got, ec, err)
		}
		if hadFixed {
			r.cl["non-movable-metadata-dropped-on-complete"]++
		}
	case "delete":
		r.noteKey(key)
		b := r.m.blobs[key]
		ec := r.m.del(key, scope)
		err := r.scoped(scope).Delete(key)
		if got := classify(err); got != ec {
			return mismatch("Delete", got, ec, err)
		}
		if ec == eNone {
			r.cause[b] = "deleted"
		} else if ec == eOutOfScope {
			r.cl["out-of-scope-answer"]++
		}
	case "ban":
		r.noteKey(key)
		ec := r.m.ban(key, scope)
		err := r.scoped(scope).BanEviction(key)
		if got := classify(err); got != ec {
			return mismatch("BanEviction", got, ec, err)
		}
		if ec == eNone {
			r.cl["ban"]++
		}
	case "unban":
		r.noteKey(key)
		was := false
		if b := r.m.blobs[key]; b != nil {
			was = b.banned && b.complete
		}
		ec := r.m.unban(key, scope)
		err := r.scoped(scope).UnbanEviction(key)
		if got := classify(err); got != ec {
			return mismatch("UnbanEviction", got, ec, err)
		}
		if ec == eNone && was && len(r.m.lru) > 1 {
			r.lruTouched = true
		}
	case "has":
		r.noteKey(key)
		b, ec := r.m.lookup(key, scope)
		_ = b
		in, inScope := r.scoped(scope).Has(key)
		wantIn, wantScope := ec != eNotExist, ec == eNone
		if in != wantIn || inScope != wantScope {
			return fmt.Sprintf("Has result differs from the model (%s: %s scope %d: store (%v,%v), model (%v,%v))", where, key, scope, in, inScope, wantIn, wantScope)
		}
	case "stat":
		r.noteKey(key)
		b, ec := r.m.lookup(key, scope)
		sz, err := r.scoped(scope).Stat(key)
		if got := classify(err); got != ec {
			return mismatch("Stat", got, ec, err)
		}
		if ec == eNone && sz != int64(len(b.data)) {
			return fmt.Sprintf("Stat size differs from the model (%s: %s: store %d, model %d)", where, key, sz, len(b.data))
		}
	case "setmd":
		r.noteKey(key)
		b, ec := r.m.lookup(key, scope)
		md := mdOf(op.MD, append([]byte(nil), op.Data...))
		err := r.scoped(scope).SetMetadata(key, md)
		if got := classify(err); got != ec {
			return mismatch("SetMetadata", got, ec, err)
		}
		if ec == eNone {
			b.md[md.suffix] = mdVal{movable: md.movable, val: append([]byte(nil), op.Data...)}
		}
	case "getmd":
		r.noteKey(key)
		b, ec := r.m.lookup(key, scope)
		md := mdOf(op.MD, nil)
		ok, err := r.scoped(scope).GetMetadata(key, md)
		if got := classify(err); got != ec {
			return mismatch("GetMetadata", got, ec, err)
		}
		if ec == eNone {
			want, present := b.md[md.suffix]
			if ok != present {
				return fmt.Sprintf("GetMetadata presence differs from the model (%s: %s %s: store %v, model %v)", where, key, md.suffix, ok, present)
			}
			if present && !bytes.Equal(md.val, want.val) {
				return fmt.Sprintf("GetMetadata value differs from the model (%s: %s %s: store %x, model %x)", where, key, md.suffix, md.val, want.val)
			}
			if present {
				r.cl["metadata-read-back"]++
			}
		}
	case "delmd":
		r.noteKey(key)
		b, ec := r.m.lookup(key, scope)
		md := mdOf(op.MD, nil)
		err := r.scoped(scope).DeleteMetadata(key, md.suffix)
		if got := classify(err); got != ec {
			return mismatch("DeleteMetadata", got, ec, err)
		}
		if ec == eNone {
			delete(b.md, md.suffix)
		}
	case "listmd":
		r.noteKey(key)
		b, ec := r.m.lookup(key, scope)
		mds, err := r.scoped(scope).ListMetadata(key)
		if got := classify(err); got != ec {
			return mismatch("ListMetadata", got, ec, err)
		}
		if ec == eNone {
			if msg := compareMD(mds, b.md); msg != "" {
				return fmt.Sprintf("ListMetadata differs from the model (%s: %s: %s)", where, key, msg)
			}
		}
	case "hread", "hreadat", "hwrite", "hwriteat", "hseek", "hsize":
		sl, ok := r.pick(op.Slot)
		if !ok {
			r.cl["handle-op-before-any-handle-skipped"]++
			return ""
		}
		return r.handleOp(where, op, sl)
	}
	return ""
}

func compareMD(got []metadata.Metadata, want map[string]mdVal) string {
	seen := map[string]bool{}
	for _, g := range got {
		if g == nil {
			return "nil metadata listed"
		}
		suf := g.GetSuffix()
		if seen[suf] {
			return "suffix " + suf + " listed twice"
		}
		seen[suf] = true
		w, ok := want[suf]
		if !ok {
			return "store lists " + suf + ", model does not have it"
		}
		b, err := g.Serialize()
		if err != nil || !bytes.Equal(b, w.val) {
			return fmt.Sprintf("value of %s: store %x, model %x", suf, b, w.val)
		}
	}
	for suf := range want {
		if !seen[suf] {
			return "model has " + suf + ", store does not list it"
		}
	}
	return ""
}

// handleOp applies one operation on a kept handle. While the handle's generation is alive
// the results follow the file model; afterwards every call must report ErrEvicted.
func (r *runner) handleOp(where string, op Op, sl slot) string {
	mh, f := sl.m, sl.f
	b := mh.b
	if b.dead {
		why := r.cause[b]
		recreated := r.m.blobs[b.key] != nil
		ctx := fmt.Sprintf("%s on a handle of %s generation %d, which was %s", where, b.key, b.gen, why)
		if recreated {
			ctx += " and re-created since"
		}
		var n int
		var err error
		var moved int // bytes the call was asked to transfer
		switch op.K {
		case "hread":
			buf := make([]byte, op.N)
			n, err = f.Read(buf)
			moved = op.N
		case "hreadat":
			buf := make([]byte, op.N)
			n, err = f.ReadAt(buf, position(op.Base, op.Delta, int64(len(b.data))))
			moved = op.N
		case "hwrite":
			n, err = f.Write(op.Data)
			moved = len(op.Data)
		case "hwriteat":
			n, err = f.WriteAt(op.Data, position(op.Base, op.Delta, int64(len(b.data))))
			moved = len(op.Data)
		case "hseek":
			w := op.Whence
			if w < 0 || w > 2 {
				w = 0
			}
			_, err = f.Seek(0, w)
			moved = 1
		case "hsize":
			if sz := f.Size(); sz != -1 {
				return fmt.Sprintf("stale handle: Size did not report eviction (%s: Size() = %d, want -1)", ctx, sz)
			}
			moved, err = 1, memory.ErrEvicted
		}
		if n != 0 {
			return fmt.Sprintf("stale handle: %s transferred bytes (%s: n=%d err=%v)", op.K[1:], ctx, n, err)
		}
		if got := classify(err); got != eEvicted {
			// A zero-length transfer cannot return stale or foreign bytes; the statement's
			// concern does not reach it, so a nil result is accepted there.
			if !(moved == 0 && got == eNone) {
				return fmt.Sprintf("stale handle: %s did not fail with ErrEvicted (%s: n=%d err=%v)", op.K[1:], ctx, n, err)
			}
			r.cl["stale-zero-length-call-returned-nil"]++
		}
		r.cl["stale-handle-op-after-"+why]++
		if recreated {
			r.cl["stale-handle-op-after-recreate"]++
			r.staleAfterRecreate++
		}
		return ""
	}
	// live generation
	size := int64(len(b.data))
	ctx := fmt.Sprintf("%s on a live handle of %s generation %d (size %d, offset %d)", where, b.key, b.gen, size, mh.off)
	check := func(call string, n, wantN int, err error) string {
		if classify(err) == eEvicted {
			return fmt.Sprintf("live handle: %s reported ErrEvicted although the blob is in the store (%s)", call, ctx)
		}
		if n != wantN {
			return fmt.Sprintf("live handle: %s byte count differs from the file model (%s: store %d err %v, model %d)", call, ctx, n, err, wantN)
		}
		return ""
	}
	switch op.K {
	case "hread":
		want := mh.read(op.N)
		buf := make([]byte, op.N)
		n, err := f.Read(buf)
		if msg := check("Read", n, len(want), err); msg != "" {
			return msg
		}
		if !bytes.Equal(buf[:n], want) {
			return fmt.Sprintf("live handle: Read bytes differ from the file model (%s: store %x, model %x)", ctx, buf[:n], want)
		}
		if n > 0 {
			r.cl["live-read-returned-bytes"]++
		}
	case "hreadat":
		off := position(op.Base, op.Delta, size)
		want := readAt(b.data, op.N, off)
		buf := make([]byte, op.N)
		n, err := f.ReadAt(buf, off)
		if msg := check("ReadAt", n, len(want), err); msg != "" {
			return msg
		}
		if !bytes.Equal(buf[:n], want) {
			return fmt.Sprintf("live handle: ReadAt bytes differ from the file model (%s off %d: store %x, model %x)", ctx, off, buf[:n], want)
		}
		if n > 0 {
			r.cl["live-read-returned-bytes"]++
		}
	case "hwrite":
		want := mh.write(op.Data)
		n, err := f.Write(op.Data)
		if msg := check("Write", n, want, err); msg != "" {
			return msg
		}
	case "hwriteat":
		off := position(op.Base, op.Delta, size)
		if len(op.Data) == 0 && off > size {
			off = size // empty writes past the end belong to C12 (known defect there), not to this property
		}
		want := mh.writeAt(op.Data, off)
		n, err := f.WriteAt(op.Data, off)
		if msg := check("WriteAt", n, want, err); msg != "" {
			return msg
		}
	case "hseek":
		target := position(op.Base, op.Delta, size)
		if target > size {
			target = size
		}
		w := op.Whence
		var arg int64
		switch w {
		case io.SeekStart:
			arg = target
		case io.SeekCurrent:
			arg = target - mh.off
		default:
			w = io.SeekEnd
			arg = target - size
		}
		pos, err := f.Seek(arg, w)
		if classify(err) == eEvicted {
			return fmt.Sprintf("live handle: Seek reported ErrEvicted although the blob is in the store (%s)", ctx)
		}
		if pos != target {
			return fmt.Sprintf("live handle: Seek result differs from the file model (%s: Seek(%d, %d): store %d err %v, model %d)", ctx, arg, w, pos, err, target)
		}
		mh.off = target
	case "hsize":
		// compared for every slot after every step
	}
	if uint64(len(b.data)) != b.reserved {
		r.cl["written-length-differs-from-reservation"]++
	}
	return ""
}

// observe compares everything observable without side effects after a step.
func (r *runner) observe(where string) string {
	for scope := 0; scope < 3; scope++ {
		got := append([]string(nil), r.scoped(scope).List()...)
		sort.Strings(got)
		want := r.m.list(scope)
		if strings.Join(got, ",") != strings.Join(want, ",") {
			return fmt.Sprintf("List differs from the model after %s (scope %d: store %v, model %v; model lru %v)", where, scope, got, want, r.m.lru)
		}
	}
	for _, k := range r.universe {
		b := r.m.blobs[k]
		in, inScope := r.st.Has(k)
		if in != (b != nil) || inScope != (b != nil) {
			return fmt.Sprintf("Has differs from the model after %s (%s: store (%v,%v), model present=%v)", where, k, in, inScope, b != nil)
		}
		sz, err := r.st.Stat(k)
		if b == nil {
			if classify(err) != eNotExist {
				return fmt.Sprintf("Stat differs from the model after %s (%s: store %d err %v, model: not in store)", where, k, sz, err)
			}
		} else if err != nil || sz != int64(len(b.data)) {
			return fmt.Sprintf("Stat differs from the model after %s (%s: store %d err %v, model %d)", where, k, sz, err, len(b.data))
		}
		mds, err := r.st.ListMetadata(k)
		if b == nil {
			if classify(err) != eNotExist {
				return fmt.Sprintf("ListMetadata differs from the model after %s (%s: err %v, model: not in store)", where, k, err)
			}
		} else if err != nil {
			return fmt.Sprintf("ListMetadata differs from the model after %s (%s: err %v, model: in store)", where, k, err)
		} else if msg := compareMD(mds, b.md); msg != "" {
			return fmt.Sprintf("ListMetadata differs from the model after %s (%s: %s)", where, k, msg)
		}
	}
	for i, sl := range r.slots {
		if sl.f == nil {
			continue
		}
		want := int64(len(sl.m.b.data))
		if sl.m.b.dead {
			want = -1
		}
		if got := sl.f.Size(); got != want {
			state := "live"
			if sl.m.b.dead {
				state = "stale (" + r.cause[sl.m.b] + ")"
			}
			return fmt.Sprintf("handle Size differs from the model after %s (slot %d, %s handle of %s generation %d: store %d, model %d)", where, i, state, sl.m.b.key, sl.m.b.gen, got, want)
		}
	}
	if r.m.size > r.m.capacity {
		return fmt.Sprintf("model invariant broken after %s: reserved %d > capacity %d (harness bug)", where, r.m.size, r.m.capacity)
	}
	return ""
}

func runModel(c Case) pbt.Verdict {
	if c.Capacity < 1 || c.Capacity > 1<<20 {
		return pbt.Verdict{Discard: true}
	}
	st, err := memory.NewStore(&memory.Config{GOMEMLIMITBytes: math.MaxInt64, CapacityBytes: uint64(c.Capacity)}, tally.NoopScope)
	if err != nil {
		return pbt.Verdict{Discard: true}
	}
	r := &runner{st: st, m: newModel(uint64(c.Capacity)), cause: map[*mBlob]string{}, cl: map[string]int{}}
	for i, op := range c.Ops {
		if msg := r.step(i, op); msg != "" {
			return pbt.Fail("%s", msg)
		}
		if msg := r.observe(fmt.Sprintf("step %d %s", i, op.K)); msg != "" {
			return pbt.Fail("%s", msg)
		}
	}
	// Final content: every blob still in the store holds exactly the model's bytes.
	keys := r.m.list(scopeAny)
	for _, k := range keys {
		b := r.m.blobs[k]
		f, err := r.st.Open(k)
		r.m.open(k, scopeAny)
		if err != nil {
			return pbt.Fail("final: Open of a blob the model holds failed (%s: %v)", k, err)
		}
		buf := make([]byte, len(b.data)+8)
		n, _ := f.ReadAt(buf, 0)
		if !bytes.Equal(buf[:n], b.data) {
			return pbt.Fail("final: blob content differs from the model (%s generation %d: store %x, model %x)", k, b.gen, buf[:n], b.data)
		}
	}
	// Drain: force evictions one reservation at a time; the model says who goes, in LRU order.
	for i := 0; len(r.m.lru) > 0 && i < 3*nKeys; i++ {
		free := r.m.capacity - r.m.size
		k := fmt.Sprintf("fill%d", i)
		where := fmt.Sprintf("drain %d", i)
		if msg := r.create(where, k, free+1, false); msg != "" {
			return pbt.Fail("%s", msg)
		}
		if msg := r.observe(where); msg != "" {
			return pbt.Fail("%s", msg)
		}
	}
	if len(r.m.lru) == 0 {
		// Nothing evictable is left: one more byte than free must be refused.
		free := r.m.capacity - r.m.size
		if msg := r.create("drain end", "fill-last", free+1, false); msg != "" {
			return pbt.Fail("%s", msg)
		}
		if msg := r.observe("drain end"); msg != "" {
			return pbt.Fail("%s", msg)
		}
	}
	var cl []string
	for k := range r.cl {
		cl = append(cl, k)
	}
	sort.Strings(cl)
	return pbt.OK(r.staleAfterRecreate > 0, cl...)
}

func TestProp(t *testing.T) {
	pbt.Main(t, pbt.Spec{
		ID: "C08",
		Rule: "part model: histories of <=80 generated steps over 2-5 keys on a memory.Store of capacity 16-64 bytes: Create (reservations 0..capacity+4, mostly 1/3-2/3 of the capacity), MarkComplete, Open, Delete, Ban/UnbanEviction, Has, Stat, Set/Get/Delete/ListMetadata (one movable, one non-movable kind), scoped calls through Any/Complete/Incomplete views, and Read/ReadAt/Write/WriteAt/Seek/Size on up to 6 handles kept from earlier Create/Open calls; " +
			"every call's result class (nil, ErrExist, ErrNotExist, ErrOutOfScope, ErrNoSpace, ErrEvicted) and value is compared with a reference model (reserved-size accounting, LRU list of complete unbanned blobs, per-generation byte content with the C12 file model); after every step List per scope, Has, Stat and ListMetadata of every key and Size of every kept handle are compared; a handle whose generation was evicted or deleted must answer ErrEvicted / Size -1 and transfer 0 bytes, also after the key was re-created; at the end every remaining blob's bytes are compared and the LRU order is drained by forced evictions; " +
			"part stress: 1-4 reader and 0-2 writer goroutines on handles race with a creator that forces evictions, deletes and re-creates the same keys with other bytes; blob sizes 4-32 bytes, in 3 of 7 cases multiplied by 16/128/1024 together with the read/write lengths (long copies under the per-blob lock while the eviction runs); invariant: every read returns exactly the bytes of the generation it first saw or ErrEvicted, ErrEvicted is permanent, and an operation started on a handle after the creator saw the Create/Delete that removed its generation return (and Has confirm it) fails with ErrEvicted -- also for handles that were inside an operation while the eviction ran and handles kept idle since; " +
			"non-trivial (model) = a generated handle operation ran on a stale handle after its key was re-created; non-trivial (stress) = a reader saw its handle turn to ErrEvicted after reading bytes and the key was re-created meanwhile; distinct by case hash",
		Assumptions: []string{
			"reference model written from the property statement and the Store documentation (scoped_store.go); LRU order: enlisted on MarkComplete/UnbanEviction, refreshed by Open",
			"a Create that can never fit may evict on the way or not (both accepted); everything else is exact",
			"zero-length reads/writes on a stale handle may return nil (no bytes can leak); empty writes past the end on live handles are left to C12",
			"MarkComplete and Create are issued through the unscoped store only (the documentation does not define them for scoped views)",
			"stress part: interleavings are chosen by the Go scheduler, not by the case; the invariant must hold under every interleaving (weaker, sampled evidence)",
		},
		Parts: []pbt.Part{
			pbt.NewPart("model", 12, genCase, runModel),
			pbt.NewPart("stress", 1, genStress, runStress),
		},
	})
}
