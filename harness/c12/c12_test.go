// C12 — in-memory blob buffers behave like ordinary files.
//
// Differential property-based test: a generated sequence of Write / WriteAt / Read /
// ReadAt / Seek / Size operations is applied to an in-memory buffer of uber/kraken and,
// in lock-step, to an *os.File in a temp dir. Byte counts, bytes read, sizes and
// resulting offsets must agree after every operation, and the full content at the end.
package c12

import (
	"bytes"
	"fmt"
	"io"
	"math"
	"os"
	"path/filepath"
	"sync"
	"testing"

	"github.com/uber-go/tally"
	"github.com/uber/kraken/lib/store"
	"github.com/uber/kraken/lib/store/base"
	"github.com/uber/kraken/lib/store/memory"
	"pgregory.net/rapid"

	"verif/internal/pbt"
)

// Op is one file operation. Positions are symbolic so that they stay meaningful while
// the case shrinks: position = (Base==1 ? current size : 0) + Delta, clamped to >= 0
// (and to <= size for Seek, because the statement only covers seeks within the written extent).
type Op struct {
	K      string `json:"k"`           // write | writeat | read | readat | seek | size
	H      int    `json:"h,omitempty"` // handle index (memfile part only; separate descriptors of one blob)
	Data   []byte `json:"d,omitempty"` // write, writeat
	N      int    `json:"n,omitempty"` // read, readat: buffer length
	Base   int    `json:"base,omitempty"`
	Delta  int    `json:"delta,omitempty"`
	Whence int    `json:"w,omitempty"` // seek: io.SeekStart/Current/End — the same target expressed three ways
}

// Case is a read/write history on a fresh buffer.
type Case struct {
	Cap     int  `json:"cap"`     // initial capacity given to the constructor
	Handles int  `json:"handles"` // 1 or 2 (2 only for memfile)
	Ops     []Op `json:"ops"`
}

// ReadCase is a read-only history on a buffer with fixed content.
type ReadCase struct {
	Content []byte `json:"content"`
	Ops     []Op   `json:"ops"`
}

func genPos(t *rapid.T) (int, int) {
	// Mostly relative to the current end so that the boundary (size-1, size, size+1) and
	// gaps are frequent; sometimes absolute from the start.
	if rapid.IntRange(0, 3).Draw(t, "posmode") == 0 {
		return 0, rapid.IntRange(0, 128).Draw(t, "abs")
	}
	return 1, rapid.IntRange(-64, 64).Draw(t, "rel")
}

func genData(t *rapid.T) []byte {
	// Non-zero payload bytes so that gap filling (zeros) cannot be confused with data.
	return rapid.SliceOfN(rapid.ByteRange(1, 255), 0, 64).Draw(t, "data")
}

func genOp(t *rapid.T, handles int, readOnly bool) Op {
	var kinds []string
	if readOnly {
		kinds = []string{"read", "read", "readat", "readat", "seek", "seek", "size"}
	} else {
		kinds = []string{"write", "write", "writeat", "writeat", "writeat", "read", "read", "readat", "readat", "seek", "seek", "size"}
	}
	op := Op{K: rapid.SampledFrom(kinds).Draw(t, "k")}
	if handles > 1 {
		op.H = rapid.IntRange(0, handles-1).Draw(t, "h")
	}
	switch op.K {
	case "write":
		op.Data = genData(t)
	case "writeat":
		op.Data = genData(t)
		op.Base, op.Delta = genPos(t)
	case "read":
		op.N = rapid.IntRange(0, 96).Draw(t, "n")
	case "readat":
		op.N = rapid.IntRange(0, 96).Draw(t, "n")
		op.Base, op.Delta = genPos(t)
	case "seek":
		op.Base, op.Delta = genPos(t)
		op.Whence = rapid.IntRange(0, 2).Draw(t, "whence")
	}
	return op
}

func genRW(handlesMax int) func(t *rapid.T) Case {
	return func(t *rapid.T) Case {
		c := Case{Cap: rapid.IntRange(0, 64).Draw(t, "cap"), Handles: 1}
		if handlesMax > 1 {
			c.Handles = rapid.IntRange(1, handlesMax).Draw(t, "handles")
		}
		n := rapid.IntRange(1, 40).Draw(t, "nops")
		for i := 0; i < n; i++ {
			c.Ops = append(c.Ops, genOp(t, c.Handles, false))
		}
		return c
	}
}

func genRO(t *rapid.T) ReadCase {
	c := ReadCase{Content: rapid.SliceOfN(rapid.ByteRange(1, 255), 0, 96).Draw(t, "content")}
	n := rapid.IntRange(1, 30).Draw(t, "nops")
	for i := 0; i < n; i++ {
		c.Ops = append(c.Ops, genOp(t, 1, true))
	}
	return c
}

// subject is what every buffer under test offers (writers are nil for the read-only reader).
type subject struct {
	r  base.FileReader
	w  io.Writer
	wa io.WriterAt
}

type stats struct {
	gapWrite, zeroLenPastEnd, overwrite, grewPastCap  int
	readCrossEnd, readPastEnd, readInside, seeks, ops int
	whence                                            [3]int
	twoHandleVisible                                  int
}

func position(op Op, size int64) int64 {
	var b int64
	if op.Base == 1 {
		b = size
	}
	p := b + int64(op.Delta)
	if p < 0 {
		p = 0
	}
	return p
}

// lockstep applies ops to subjects[h] and refs[h] (descriptors of one reference file).
func lockstep(subs []subject, refs []*os.File, ops []Op, initCap int, st *stats) string {
	refSize := func() (int64, error) {
		fi, err := refs[0].Stat()
		if err != nil {
			return 0, err
		}
		return fi.Size(), nil
	}
	lastWriter := -1
	size, err := refSize()
	if err != nil {
		return "" // reference I/O trouble is never a violation
	}
	for i, op := range ops {
		h := op.H
		if h < 0 || h >= len(subs) {
			h = 0
		}
		s, ref := subs[h], refs[h]
		where := fmt.Sprintf("step %d %s", i, op.K)
		st.ops++
		switch op.K {
		case "write":
			if s.w == nil {
				continue
			}
			cur, _ := ref.Seek(0, io.SeekCurrent)
			rn, rerr := ref.Write(op.Data)
			if rerr != nil {
				return ""
			}
			n, _ := s.w.Write(op.Data)
			if n != rn {
				return fmt.Sprintf("Write byte count differs from os.File (%s: len=%d at offset %d size %d: buffer %d, file %d)", where, len(op.Data), cur, size, n, rn)
			}
			if len(op.Data) > 0 {
				if cur+int64(len(op.Data)) <= size {
					st.overwrite++
				}
				lastWriter = h
			}
		case "writeat":
			if s.wa == nil {
				continue
			}
			off := position(op, size)
			rn, rerr := ref.WriteAt(op.Data, off)
			if rerr != nil {
				return ""
			}
			n, _ := s.wa.WriteAt(op.Data, off)
			if n != rn {
				return fmt.Sprintf("WriteAt byte count differs from os.File (%s: len=%d off=%d size %d: buffer %d, file %d)", where, len(op.Data), off, size, n, rn)
			}
			switch {
			case len(op.Data) == 0 && off > size:
				st.zeroLenPastEnd++
			case len(op.Data) > 0 && off > size:
				st.gapWrite++
			case len(op.Data) > 0 && off+int64(len(op.Data)) <= size:
				st.overwrite++
			}
			if len(op.Data) > 0 {
				lastWriter = h
			}
		case "read":
			cur, _ := ref.Seek(0, io.SeekCurrent)
			rb := make([]byte, op.N)
			rn, rerr := io.ReadFull(ref, rb) // an OS file delivers min(N, size-cur) bytes
			if rerr != nil && rerr != io.EOF && rerr != io.ErrUnexpectedEOF {
				return ""
			}
			b := make([]byte, op.N)
			n, _ := s.r.Read(b)
			if n != rn {
				return fmt.Sprintf("Read byte count differs from os.File (%s: n=%d at offset %d size %d: buffer %d, file %d)", where, op.N, cur, size, n, rn)
			}
			if !bytes.Equal(b[:n], rb[:rn]) {
				return fmt.Sprintf("Read bytes differ from os.File (%s: n=%d at offset %d size %d: buffer %x, file %x)", where, op.N, cur, size, b[:n], rb[:rn])
			}
			classifyRead(st, cur, int64(op.N), size)
			if rn > 0 && lastWriter >= 0 && lastWriter != h {
				st.twoHandleVisible++
			}
		case "readat":
			off := position(op, size)
			rb := make([]byte, op.N)
			rn, rerr := ref.ReadAt(rb, off)
			if rerr != nil && rerr != io.EOF {
				return ""
			}
			b := make([]byte, op.N)
			n, _ := s.r.ReadAt(b, off)
			if n != rn {
				return fmt.Sprintf("ReadAt byte count differs from os.File (%s: n=%d off=%d size %d: buffer %d, file %d)", where, op.N, off, size, n, rn)
			}
			if !bytes.Equal(b[:n], rb[:rn]) {
				return fmt.Sprintf("ReadAt bytes differ from os.File (%s: n=%d off=%d size %d: buffer %x, file %x)", where, op.N, off, size, b[:n], rb[:rn])
			}
			classifyRead(st, off, int64(op.N), size)
			if rn > 0 && lastWriter >= 0 && lastWriter != h {
				st.twoHandleVisible++
			}
		case "seek":
			target := position(op, size)
			if target > size {
				target = size // statement: seeks within the written extent
			}
			cur, _ := ref.Seek(0, io.SeekCurrent)
			var arg int64
			switch op.Whence {
			case io.SeekStart:
				arg = target
			case io.SeekCurrent:
				arg = target - cur
			default:
				arg = target - size
			}
			w := op.Whence
			if w < 0 || w > 2 {
				w = 2
			}
			rpos, rerr := ref.Seek(arg, w)
			if rerr != nil {
				return ""
			}
			pos, _ := s.r.Seek(arg, w)
			if pos != rpos {
				return fmt.Sprintf("Seek result differs from os.File (%s: Seek(%d, whence %d) from offset %d size %d: buffer %d, file %d)", where, arg, w, cur, size, pos, rpos)
			}
			st.seeks++
			st.whence[w]++
		case "size":
			// compared after every step below
		}
		// After every operation: same size and same offset on every descriptor.
		nsize, err := refSize()
		if err != nil {
			return ""
		}
		if nsize > int64(initCap) && size <= int64(initCap) {
			st.grewPastCap++
		}
		for k := range subs {
			if got := subs[k].r.Size(); got != nsize {
				return fmt.Sprintf("Size differs from os.File after %s (%s: handle %d: buffer %d, file %d)", op.K, describe(where, op, size), k, got, nsize)
			}
			rcur, err := refs[k].Seek(0, io.SeekCurrent)
			if err != nil {
				return ""
			}
			cur, _ := subs[k].r.Seek(0, io.SeekCurrent)
			if cur != rcur {
				return fmt.Sprintf("offset differs from os.File after %s (%s: handle %d: buffer %d, file %d)", op.K, describe(where, op, size), k, cur, rcur)
			}
		}
		size = nsize
	}
	// Final full content.
	want := make([]byte, size)
	if _, err := refs[0].ReadAt(want, 0); err != nil && err != io.EOF {
		return ""
	}
	for k := range subs {
		got := make([]byte, size+8)
		n, _ := subs[k].r.ReadAt(got, 0)
		if int64(n) != size || !bytes.Equal(got[:n], want) {
			return fmt.Sprintf("final content differs from os.File (handle %d: buffer %d bytes %x, file %d bytes %x)", k, n, got[:n], size, want)
		}
	}
	return ""
}

func describe(where string, op Op, sizeBefore int64) string {
	switch op.K {
	case "writeat":
		return fmt.Sprintf("%s len=%d off=%d size before %d", where, len(op.Data), position(op, sizeBefore), sizeBefore)
	case "write":
		return fmt.Sprintf("%s len=%d size before %d", where, len(op.Data), sizeBefore)
	}
	return fmt.Sprintf("%s size before %d", where, sizeBefore)
}

func classifyRead(st *stats, off, n, size int64) {
	switch {
	case n == 0:
	case off >= size:
		st.readPastEnd++
	case off+n > size:
		st.readCrossEnd++
	default:
		st.readInside++
	}
}

func verdict(msg string, st *stats, extra ...string) pbt.Verdict {
	if msg != "" {
		return pbt.Fail("%s", msg)
	}
	var cl []string
	add := func(c bool, name string) {
		if c {
			cl = append(cl, name)
		}
	}
	add(st.gapWrite > 0, "gap-write")
	add(st.zeroLenPastEnd > 0, "zero-length-writeat-past-end")
	add(st.overwrite > 0, "overwrite-inside")
	add(st.grewPastCap > 0, "grew-past-initial-capacity")
	add(st.readCrossEnd > 0, "read-crosses-end")
	add(st.readPastEnd > 0, "read-at-or-past-end")
	add(st.readInside > 0, "read-inside")
	add(st.whence[0] > 0 && st.whence[1] > 0 && st.whence[2] > 0, "seek-all-three-whences")
	add(st.twoHandleVisible > 0, "read-sees-other-handles-write")
	cl = append(cl, extra...)
	return pbt.OK(st.gapWrite > 0 || st.readCrossEnd > 0, cl...)
}

var (
	refOnce sync.Once
	refErr  error
	refFDs  []*os.File // descriptors of the one reference file of this process, reused by every case
)

// refFiles hands out n descriptors of the (emptied, then pre-filled) reference file. The
// file lives in a scratch directory under TMPDIR, which the driver removes; it is reused
// across cases (truncate + rewind) because creating and unlinking a file per case is the
// dominant cost on a journalling filesystem when 16 shards run side by side.
func refFiles(n int, content []byte) (fs []*os.File, err error) {
	refOnce.Do(func() {
		var dir string
		if dir, refErr = os.MkdirTemp("", "c12-"); refErr != nil {
			return
		}
		p := filepath.Join(dir, "ref")
		for i := 0; i < 4; i++ {
			f, e := os.OpenFile(p, os.O_RDWR|os.O_CREATE, 0644)
			if e != nil {
				refErr = e
				return
			}
			refFDs = append(refFDs, f)
		}
	})
	if refErr != nil {
		return nil, refErr
	}
	if n > len(refFDs) {
		return nil, fmt.Errorf("too many descriptors")
	}
	if err = refFDs[0].Truncate(0); err != nil {
		return nil, err
	}
	for _, f := range refFDs[:n] {
		if _, err = f.Seek(0, io.SeekStart); err != nil {
			return nil, err
		}
	}
	if len(content) > 0 {
		if _, err = refFDs[0].WriteAt(content, 0); err != nil {
			return nil, err
		}
	}
	return refFDs[:n], nil
}

func runBufRW(c Case) pbt.Verdict {
	if c.Cap < 0 || c.Cap > 1<<16 {
		return pbt.Verdict{Discard: true}
	}
	refs, err := refFiles(1, nil)
	if err != nil {
		return pbt.Verdict{Discard: true}
	}
	b := base.NewBufferReadWriter(uint64(c.Cap))
	st := &stats{}
	msg := lockstep([]subject{{r: b, w: b, wa: b}}, refs, c.Ops, c.Cap, st)
	if msg == "" {
		// Bytes() is what the real caller (CAStore memory write-through) takes as the blob.
		fi, err := refs[0].Stat()
		if err == nil {
			want := make([]byte, fi.Size())
			if _, err := refs[0].ReadAt(want, 0); err == nil || err == io.EOF {
				if !bytes.Equal(b.Bytes(), want) {
					msg = fmt.Sprintf("final content differs from os.File (Bytes(): buffer %d bytes %x, file %d bytes %x)", len(b.Bytes()), b.Bytes(), len(want), want)
				}
			}
		}
	}
	return verdict(msg, st)
}

func runMemFile(c Case) pbt.Verdict {
	if c.Cap < 0 || c.Cap > 1<<16 {
		return pbt.Verdict{Discard: true}
	}
	h := c.Handles
	if h < 1 {
		h = 1
	}
	if h > 4 {
		h = 4
	}
	refs, err := refFiles(h, nil)
	if err != nil {
		return pbt.Verdict{Discard: true}
	}
	// The blob under test is created in a store that is full of an older, completed blob of
	// non-zero bytes, so its creation evicts that blob: a buffer of a real store has a past,
	// and whatever the store does with the memory of evicted blobs must not show through.
	storeCap := uint64(c.Cap)
	if storeCap < 64 {
		storeCap = 64
	}
	ms, err := memory.NewStore(&memory.Config{GOMEMLIMITBytes: math.MaxInt64, CapacityBytes: storeCap}, tally.NoopScope)
	if err != nil {
		return pbt.Verdict{Discard: true}
	}
	if old, err := ms.Create("older", storeCap); err == nil {
		old.Write(bytes.Repeat([]byte{0xAB}, int(storeCap)))
		old.Close()
		ms.MarkComplete("older")
	}
	const key = "blob"
	f, err := ms.Create(key, uint64(c.Cap))
	if err != nil {
		return pbt.Fail("memory.Store.Create of a %d-byte blob in a %d-byte store holding one evictable blob failed: %v", c.Cap, storeCap, err)
	}
	subs := []subject{{r: f, w: f, wa: f}}
	for i := 1; i < h; i++ {
		g, err := ms.Open(key)
		if err != nil {
			return pbt.Fail("memory.Store.Open of the blob just created failed: %v", err)
		}
		subs = append(subs, subject{r: g, w: g, wa: g})
	}
	st := &stats{}
	msg := lockstep(subs, refs, c.Ops, c.Cap, st)
	if msg == "" {
		// Stat is documented to return the blob's actual size.
		if fi, err := refs[0].Stat(); err == nil {
			if got, serr := ms.Stat(key); serr != nil || got != fi.Size() {
				msg = fmt.Sprintf("Size differs from os.File (Store.Stat: buffer %d err %v, file %d)", got, serr, fi.Size())
			}
		}
	}
	var extra []string
	if h > 1 {
		extra = append(extra, "two-handles")
	}
	return verdict(msg, st, extra...)
}

func runBufReader(c ReadCase) pbt.Verdict {
	refs, err := refFiles(1, c.Content)
	if err != nil {
		return pbt.Verdict{Discard: true}
	}
	content := append([]byte(nil), c.Content...)
	r := store.NewBufferFileReader(content)
	defer r.Close()
	st := &stats{}
	msg := lockstep([]subject{{r: r}}, refs, c.Ops, len(c.Content), st)
	if msg != "" {
		return pbt.Fail("%s", msg)
	}
	v := verdict("", st)
	v.NonTrivial = st.readCrossEnd > 0
	return v
}

func TestProp(t *testing.T) {
	pbt.Main(t, pbt.Spec{
		ID: "C12",
		Rule: "random sequences (<=40 ops) of Write/WriteAt/Read/ReadAt/Seek/Size with payloads of 0-64 non-zero bytes, read lengths 0-96, " +
			"positions drawn relative to the current end (-64..+64, so gaps and reads across the end are frequent) or absolute 0-128, seek targets clamped to [0,size] and expressed through all three whences, " +
			"initial capacity 0-64; applied in lock-step to base.BufferReadWriter (part bufrw), to 1-2 memory.File handles of one blob obtained from memory.Store.Create/Open (part memfile) and, read subset on fixed content, to store.NewBufferFileReader (part bufreader), " +
			"and to *os.File descriptors of one temp file; compared: byte count of every call, bytes of every read, Size() vs Stat().Size and Seek(0,Current) of every handle after every step, Seek results, final content (ReadAt, Bytes(), Store.Stat); " +
			"end-of-file is compared as 'fewer bytes than asked', never by error value; non-trivial = at least one write left a gap or one read crossed the end; distinct by case hash",
		Assumptions: []string{
			"an *os.File on the temp filesystem is the reference for 'ordinary file' (sparse gaps read as zeros)",
			"seeks stay within [0,size] and offsets are non-negative, as the statement restricts",
			"error values are not compared (only counts, bytes, sizes, offsets)",
			"two memory.File handles of one blob are compared with two descriptors of one file (File is documented as the analogue of an open file descriptor)",
		},
		Parts: []pbt.Part{
			pbt.NewPart("bufreader", 1, genRO, runBufReader),
			pbt.NewPart("bufrw", 5, genRW(1), runBufRW),
			pbt.NewPart("memfile", 5, genRW(2), runMemFile),
		},
	})
}
