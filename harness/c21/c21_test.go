// C21 — hash ring replica sets are non-empty, healthy, bounded and host-independent.
//
// A generated configuration (host pool, MaxReplica, a sequence of membership/health
// states) is given to three independently constructed hashring.Ring objects through a
// mutable hostlist.List stub and a healthcheck.Filter stub. While a Refresh is in progress the
// filter stub looks up a sample of shards on the ring being refreshed (probeRefresh). For every state (the first at
// construction, the later ones through Refresh) all 65 536 shard prefixes are looked up on
// all three rings and compared with the replica set the statement prescribes, computed
// from a ranking that the harness derives itself (weighted rendezvous score written from
// the documentation, directly on spaolacci/murmur3 — lib/hrw is not used by the oracle).
package c21

import (
	"encoding/binary"
	"encoding/hex"
	"fmt"
	"math"
	"os"
	"runtime/debug"
	"sort"
	"strings"
	"sync"
	"testing"

	"github.com/spaolacci/murmur3"
	"github.com/uber-go/tally"
	"github.com/uber/kraken/core"
	"github.com/uber/kraken/lib/hashring"
	"github.com/uber/kraken/utils/stringset"
	"pgregory.net/rapid"

	"verif/internal/pbt"
)

// State is one membership/health situation of the cluster.
type State struct {
	Members []int `json:"m"` // indices into Case.Hosts, distinct, non-empty
	Healthy []int `json:"h"` // subset of Members
}

// Case is one generated configuration.
type Case struct {
	Hosts      []string `json:"hosts"`  // distinct host:port strings
	MaxReplica int      `json:"r"`      // >= 1
	Suffix     string   `json:"suffix"` // 60 hex digits appended to the shard to form a sha256 digest
	States     []State  `json:"states"` // States[0] is present at construction, the others arrive via Refresh
}

// ---------------------------------------------------------------- generator

func genHost(t *rapid.T) string {
	port := rapid.SampledFrom([]int{80, 443, 5055, 15002, 15020, 7602}).Draw(t, "port")
	switch rapid.IntRange(0, 3).Draw(t, "form") {
	case 0:
		return fmt.Sprintf("10.%d.%d.%d:%d", rapid.IntRange(0, 3).Draw(t, "a"), rapid.IntRange(0, 255).Draw(t, "b"), rapid.IntRange(1, 254).Draw(t, "c"), port)
	case 1:
		return fmt.Sprintf("kraken-origin%02d-%s:%d", rapid.IntRange(1, 40).Draw(t, "n"), rapid.SampledFrom([]string{"dca1", "sjc1", "phx2"}).Draw(t, "dc"), port)
	case 2:
		return fmt.Sprintf("%s.prod.example.com:%d", rapid.StringMatching(`[a-z]{1,6}[0-9]{0,3}`).Draw(t, "name"), port)
	default:
		return fmt.Sprintf("o%d:%d", rapid.IntRange(0, 99).Draw(t, "k"), port)
	}
}

// subset draws a subset of xs; mode chooses its shape.
func genHealth(t *rapid.T, members []int) []int {
	n := len(members)
	mode := rapid.SampledFrom([]int{0, 1, 1, 2, 2, 3, 4, 5}).Draw(t, "healthMode")
	if n == 1 && mode != 0 {
		mode = 1 + mode%2*4 // single member: unhealthy or random
	}
	var out []int
	switch mode {
	case 0: // everybody healthy
		out = append(out, members...)
	case 1: // nobody healthy
	case 2, 3: // only a few healthy (makes "no healthy host among the top owners" frequent)
		k := rapid.IntRange(1, min(2, n)).Draw(t, "few")
		perm := rapid.Permutation(members).Draw(t, "perm")
		out = append(out, perm[:k]...)
	case 4: // only a few unhealthy
		k := rapid.IntRange(1, min(3, n)).Draw(t, "fewBad")
		perm := rapid.Permutation(members).Draw(t, "perm")
		out = append(out, perm[k:]...)
	default: // arbitrary subset
		for _, m := range members {
			if rapid.Bool().Draw(t, "ok") {
				out = append(out, m)
			}
		}
	}
	sort.Ints(out)
	if out == nil {
		out = []int{}
	}
	return out
}

func genMembers0(t *rapid.T, pool int) []int {
	all := make([]int, pool)
	for i := range all {
		all[i] = i
	}
	if pool == 1 || rapid.IntRange(0, 3).Draw(t, "fullPool") == 0 {
		return all
	}
	k := rapid.IntRange(1, pool-1).Draw(t, "size")
	if pool > 3 && rapid.Bool().Draw(t, "mostOfPool") {
		k = rapid.IntRange(pool/2, pool-1).Draw(t, "sizeBig")
	}
	perm := rapid.Permutation(all).Draw(t, "mperm")
	out := append([]int{}, perm[:k]...)
	sort.Ints(out)
	return out
}

// nextMembers derives the membership of the following state: unchanged, one host
// removed, one added, one swapped (same size, different set), an arbitrary new subset,
// every host replaced (a new set disjoint from the old one: all hosts behind a DNS record
// change) or exactly the previously healthy hosts replaced/removed.
func nextMembers(t *rapid.T, pool int, cur, curHealthy []int) []int {
	in := map[int]bool{}
	for _, m := range cur {
		in[m] = true
	}
	var absent []int
	for i := 0; i < pool; i++ {
		if !in[i] {
			absent = append(absent, i)
		}
	}
	out := append([]int{}, cur...)
	change := rapid.IntRange(0, 10).Draw(t, "memberChange")
	if len(absent) == 0 && change >= 2 && change <= 5 {
		change = 1
	}
	if len(absent) == 0 && change == 8 {
		change = 9
	}
	switch change {
	case 0: // health-only change
	case 1: // remove one
		if len(out) > 1 {
			i := rapid.IntRange(0, len(out)-1).Draw(t, "rm")
			out = append(out[:i], out[i+1:]...)
		}
	case 2: // add one
		if len(absent) > 0 {
			out = append(out, rapid.SampledFrom(absent).Draw(t, "add"))
		}
	case 3, 4, 5: // swap one: same size, different membership
		if len(absent) > 0 {
			i := rapid.IntRange(0, len(out)-1).Draw(t, "swapOut")
			out[i] = rapid.SampledFrom(absent).Draw(t, "swapIn")
		}
	case 8: // every host replaced: the new membership is disjoint from the old one
		k := len(cur)
		if k > len(absent) {
			k = len(absent)
		}
		if rapid.IntRange(0, 3).Draw(t, "replaceResize") == 0 {
			k = rapid.IntRange(1, len(absent)).Draw(t, "replaceSize")
		}
		perm := rapid.Permutation(absent).Draw(t, "replacePerm")
		out = append([]int{}, perm[:k]...)
	case 9, 10: // the previously healthy hosts leave (each replaced by an absent host while there are any)
		wasHealthy := map[int]bool{}
		for _, h := range curHealthy {
			wasHealthy[h] = true
		}
		var perm []int
		if len(absent) > 0 {
			perm = rapid.Permutation(absent).Draw(t, "healthyReplacePerm")
		}
		out = out[:0]
		for _, m := range cur {
			if !wasHealthy[m] {
				out = append(out, m)
			} else if len(perm) > 0 {
				out = append(out, perm[0])
				perm = perm[1:]
			}
		}
		if len(out) == 0 { // everybody was healthy and nobody is available as a replacement: keep one host
			out = append(out, rapid.SampledFrom(cur).Draw(t, "keepOne"))
		}
	default:
		return genMembers0(t, pool)
	}
	sort.Ints(out)
	return out
}

func gen(t *rapid.T) Case {
	maxHosts := 12
	pool := rapid.IntRange(1, maxHosts).Draw(t, "pool")
	if rapid.IntRange(0, 2).Draw(t, "big") == 0 {
		pool = rapid.IntRange(6, maxHosts).Draw(t, "poolBig")
	}
	hosts := rapid.SliceOfNDistinct(rapid.Custom(genHost), pool, pool, rapid.ID[string]).Draw(t, "hosts")
	c := Case{
		Hosts:      hosts,
		MaxReplica: rapid.IntRange(1, 6).Draw(t, "maxReplica"),
		Suffix:     rapid.StringMatching(`[0-9a-f]{60}`).Draw(t, "suffix"),
	}
	nStates := rapid.SampledFrom([]int{1, 2, 2, 3, 3}).Draw(t, "states")
	members := genMembers0(t, pool)
	var healthy []int
	for s := 0; s < nStates; s++ {
		if s > 0 {
			members = nextMembers(t, pool, members, healthy)
		}
		healthy = genHealth(t, members)
		c.States = append(c.States, State{Members: members, Healthy: healthy})
	}
	return c
}

// ---------------------------------------------------------------- stubs

// cluster is a hostlist.List whose content the harness sets.
type cluster struct {
	mu    sync.Mutex
	addrs []string
}

func (c *cluster) set(addrs []string) {
	c.mu.Lock()
	c.addrs = append([]string{}, addrs...)
	c.mu.Unlock()
}

func (c *cluster) Resolve() stringset.Set {
	c.mu.Lock()
	defer c.mu.Unlock()
	return stringset.FromSlice(c.addrs) // a fresh map per call: every ring discovers the hosts in its own order
}

// filter is a healthcheck.Filter which reports the configured healthy hosts among addrs.
// While a health-check round is in flight (inside Run, which the ring calls from Refresh)
// it invokes probe, if set: a request handler looking up digests at that very moment.
type filter struct {
	mu      sync.Mutex
	healthy map[string]bool
	probe   func()
}

func (f *filter) set(h []string) {
	f.mu.Lock()
	f.healthy = map[string]bool{}
	for _, a := range h {
		f.healthy[a] = true
	}
	f.mu.Unlock()
}

func (f *filter) setProbe(p func()) {
	f.mu.Lock()
	f.probe = p
	f.mu.Unlock()
}

func (f *filter) Run(addrs stringset.Set) stringset.Set {
	f.mu.Lock()
	probe := f.probe
	f.mu.Unlock()
	if probe != nil {
		probe() // no harness lock held: the probe calls back into the ring
	}
	f.mu.Lock()
	defer f.mu.Unlock()
	out := stringset.New()
	for a := range addrs {
		if f.healthy[a] {
			out.Add(a)
		}
	}
	return out
}

// ---------------------------------------------------------------- oracle

const mask53 = uint64(1)<<53 - 1

// refScore is the weighted rendezvous score of (key bytes, label) as documented in
// lib/hrw: h = murmur3-64(key||label); the low 53 bits as a fraction of 2^53 (re-hashed
// once when they are all zero); score = -weight/ln(fraction). All ring members have the
// same weight, so the ranking does not depend on its value.
func refScore(key []byte, label string, weight float64) float64 {
	buf := make([]byte, 0, len(key)+len(label))
	buf = append(buf, key...)
	buf = append(buf, label...)
	h := murmur3.Sum64(buf)
	v := h & mask53
	if v == 0 {
		var b [8]byte
		binary.BigEndian.PutUint64(b[:], h)
		v = murmur3.Sum64(b[:]) & mask53
	}
	return -weight / math.Log(float64(v)/float64(uint64(1)<<53))
}

type ranked struct {
	addr  string
	score float64
}

// expected returns the replica set the statement prescribes and whether the ranking is
// unambiguous (no two members with indistinguishable scores).
func expected(key []byte, members []string, healthy map[string]bool, anyHealthy bool, maxReplica int, scratch []ranked) (exp []string, shape string, unambiguous bool) {
	rk := scratch[:0]
	for _, m := range members {
		rk = append(rk, ranked{m, refScore(key, m, 100)})
	}
	sort.Slice(rk, func(i, j int) bool { return rk[i].score > rk[j].score })
	unambiguous = true
	for i := 0; i+1 < len(rk); i++ {
		a, b := rk[i].score, rk[i+1].score
		if math.IsNaN(a) || math.IsNaN(b) || !(a-b > 1e-12*math.Abs(a)) {
			unambiguous = false
		}
	}
	if !anyHealthy {
		return []string{rk[0].addr}, "none-healthy", unambiguous
	}
	top := maxReplica
	if top > len(rk) {
		top = len(rk)
	}
	skipped := false
	for _, r := range rk[:top] {
		if healthy[r.addr] {
			exp = append(exp, r.addr)
		} else {
			skipped = true
		}
	}
	if len(exp) > 0 {
		if skipped {
			return exp, "filtered", unambiguous
		}
		return exp, "all-top-healthy", unambiguous
	}
	for _, r := range rk[top:] {
		if healthy[r.addr] {
			return []string{r.addr}, "fallback-next-healthy", unambiguous
		}
	}
	panic("harness: anyHealthy but no healthy member found")
}

func equalStrings(a, b []string) bool {
	if len(a) != len(b) {
		return false
	}
	for i := range a {
		if a[i] != b[i] {
			return false
		}
	}
	return true
}

const nShards = 1 << 16
const nRings = 3

type failure struct {
	shard int
	msg   string
}

func validate(c Case) string {
	if len(c.Hosts) == 0 || len(c.States) == 0 || c.MaxReplica < 1 || len(c.Suffix) != 60 {
		return "malformed case"
	}
	seen := map[string]bool{}
	for _, h := range c.Hosts {
		if seen[h] {
			return "duplicate host"
		}
		seen[h] = true
	}
	for _, s := range c.States {
		if len(s.Members) == 0 {
			return "empty membership"
		}
		in := map[int]bool{}
		for _, m := range s.Members {
			if m < 0 || m >= len(c.Hosts) || in[m] {
				return "bad member index"
			}
			in[m] = true
		}
		for _, h := range s.Healthy {
			if !in[h] {
				return "healthy host is not a member"
			}
		}
	}
	return ""
}

func run(c Case) pbt.Verdict {
	if why := validate(c); why != "" {
		return pbt.Verdict{Discard: true, Classes: []string{"discard:" + why}}
	}
	workers := 4
	if os.Getenv("VERIF_TIER") == "thorough" {
		workers = 2 // 16 shard processes already use the machine
	}

	cl := &cluster{}
	fl := &filter{}
	addrsOf := func(idx []int) []string {
		out := make([]string, len(idx))
		for i, m := range idx {
			out[i] = c.Hosts[m]
		}
		return out
	}

	var rings []hashring.Ring
	classes := map[string]bool{}
	var keys []string
	evals := 0
	interesting := false
	var prevSnap *snapshot

	for si, st := range c.States {
		members := addrsOf(st.Members)
		healthyList := addrsOf(st.Healthy)
		snap := newSnapshot(members, healthyList)
		cl.set(members)
		fl.set(healthyList)
		if si == 0 {
			for i := 0; i < nRings; i++ {
				rings = append(rings, hashring.New(hashring.Config{MaxReplica: c.MaxReplica}, cl, fl, tally.NoopScope))
			}
		} else {
			// While the health-check round of this Refresh is in flight, a sample of the shards is
			// looked up on the ring being refreshed (see probeRefresh).
			for ri, r := range rings {
				var msg string
				var probed int
				ri, r := ri, r
				fl.setProbe(func() { msg, probed = probeRefresh(c, si, ri, r, prevSnap, snap) })
				r.Refresh()
				fl.setProbe(nil)
				if msg != "" {
					return pbt.Verdict{Violation: msg, NonTrivial: true}
				}
				if probed == 0 {
					classes["mid-refresh:filter-not-run"] = true // never seen; not an error in itself
				}
				evals += probed
			}
			if !sameSet(prevSnap.memberSet, snap.memberSet) {
				classes["mid-refresh:membership-change"] = true
				if prevSnap.anyHealthy {
					gone := true
					for h := range prevSnap.healthy {
						if snap.memberSet[h] {
							gone = false
						}
					}
					if gone {
						classes["mid-refresh:every-previously-healthy-host-left"] = true
					} else {
						classes["mid-refresh:some-previously-healthy-host-stays"] = true
					}
				}
			} else {
				classes["mid-refresh:health-only"] = true
			}
			prev := c.States[si-1]
			switch {
			case equalInts(prev.Members, st.Members):
				classes["refresh:health-only"] = true
			case len(prev.Members) == len(st.Members):
				classes["refresh:same-size-different-members"] = true
			default:
				classes["refresh:size-change"] = true
			}
		}
		healthy := map[string]bool{}
		for _, h := range healthyList {
			healthy[h] = true
		}
		memberSet := map[string]bool{}
		for _, m := range members {
			memberSet[m] = true
		}
		// Members()/Contains must reflect the current membership (replicas are "drawn from current members").
		for ri, r := range rings {
			got := r.Members()
			if len(got) != len(members) {
				return pbt.Fail("ring membership differs from the host list after state %d (ring %d: got %v want %v)", si, ri, got.ToSlice(), members)
			}
			for _, m := range members {
				if !got.Has(m) {
					return pbt.Fail("ring membership differs from the host list after state %d (ring %d: got %v want %v)", si, ri, got.ToSlice(), members)
				}
			}
		}

		shapeCount := make([]map[string]int, workers)
		fails := make([]*failure, workers)
		var wg sync.WaitGroup
		for w := 0; w < workers; w++ {
			wg.Add(1)
			go func(w int) {
				defer wg.Done()
				defer func() {
					if r := recover(); r != nil {
						fails[w] = &failure{-1, fmt.Sprintf("panic during lookup: %v", r)}
					}
				}()
				shapes := map[string]int{}
				shapeCount[w] = shapes
				scratch := make([]ranked, 0, len(members))
				var kb [2]byte
				heldGot, heldCopy, heldShard := make([][]string, len(rings)), make([][]string, len(rings)), make([]int, len(rings))
				for shard := w; shard < nShards; shard += workers {
					kb[0], kb[1] = byte(shard>>8), byte(shard)
					shardHex := hex.EncodeToString(kb[:])
					d, err := core.NewSHA256DigestFromHex(shardHex + c.Suffix)
					if err != nil {
						fails[w] = &failure{shard, "harness: digest: " + err.Error()}
						return
					}
					exp, shape, unambiguous := expected(kb[:], members, healthy, len(healthyList) > 0, c.MaxReplica, scratch)
					shapes[shape]++
					if !unambiguous {
						shapes["ambiguous-ranking"]++
					}
					var first []string
					for ri, r := range rings {
						got := r.Locations(d)
						// A replica set handed out earlier is the caller's: a later lookup must not rewrite it.
						if heldGot[ri] != nil && !equalStrings(heldGot[ri], heldCopy[ri]) {
							fails[w] = &failure{heldShard[ri], fmt.Sprintf("the replica set returned for shard %04x by ring %d changed when shard %s was looked up afterwards: was %v, now %v (state %d)",
								heldShard[ri], ri, shardHex, heldCopy[ri], heldGot[ri], si)}
							return
						}
						heldGot[ri], heldCopy[ri], heldShard[ri] = got, append([]string(nil), got...), shard
						if msg := judge(got, exp, unambiguous, memberSet, healthy, len(healthyList) > 0, c.MaxReplica); msg != "" {
							fails[w] = &failure{shard, fmt.Sprintf("%s (state %d shard %s ring %d: got %v, statement prescribes %v; members %v healthy %v MaxReplica %d)",
								msg, si, shardHex, ri, got, exp, members, healthyList, c.MaxReplica)}
							return
						}
						if ri == 0 {
							first = got
						} else if !equalStrings(first, got) {
							fails[w] = &failure{shard, fmt.Sprintf("rings with the same membership disagree on the ordered replica set (state %d shard %s: ring 0 %v, ring %d %v)", si, shardHex, first, ri, got)}
							return
						}
					}
				}
			}(w)
		}
		wg.Wait()
		var worst *failure
		for _, f := range fails {
			if f != nil && (worst == nil || f.shard < worst.shard) {
				worst = f
			}
		}
		if worst != nil {
			return pbt.Verdict{Violation: worst.msg, NonTrivial: true}
		}
		evals += nShards * nRings
		total := map[string]int{}
		for _, m := range shapeCount {
			for k, v := range m {
				total[k] += v
			}
		}
		for k := range total {
			classes["shape:"+k] = true
		}
		if len(members) == 1 {
			classes["single-member"] = true
		}
		if len(members) >= 2 && len(healthyList) == 0 {
			classes["none-healthy,members>=2"] = true
		}
		if si > 0 && len(c.States[si-1].Healthy) > 0 && len(healthyList) == 0 {
			classes["refresh:some-healthy->none-healthy"] = true
		}
		if si > 0 && len(c.States[si-1].Healthy) == 0 && len(healthyList) > 0 {
			classes["refresh:none-healthy->some-healthy"] = true
		}
		if c.MaxReplica >= len(members) {
			classes["maxreplica>=members"] = true
		} else {
			classes["maxreplica<members"] = true
		}
		if len(members) >= 2 && (total["filtered"] > 0 || total["fallback-next-healthy"] > 0 || total["none-healthy"] > 0) {
			interesting = true
			keys = append(keys, fmt.Sprintf("%s|%s|%d", strings.Join(members, ","), strings.Join(healthyList, ","), c.MaxReplica))
		}
		prevSnap = snap
	}
	var cls []string
	for k := range classes {
		cls = append(cls, k)
	}
	sort.Strings(cls)
	return pbt.Verdict{NonTrivial: interesting, Classes: cls, Evals: evals, NonTrivialKeys: keys}
}

// snapshot is one whole membership/health state as the host list and the health filter define it.
type snapshot struct {
	members     []string
	healthyList []string
	memberSet   map[string]bool
	healthy     map[string]bool
	anyHealthy  bool
}

func newSnapshot(members, healthyList []string) *snapshot {
	s := &snapshot{members: members, healthyList: healthyList, memberSet: map[string]bool{}, healthy: map[string]bool{}, anyHealthy: len(healthyList) > 0}
	for _, m := range members {
		s.memberSet[m] = true
	}
	for _, h := range healthyList {
		s.healthy[h] = true
	}
	return s
}

func sameSet(a, b map[string]bool) bool {
	if len(a) != len(b) {
		return false
	}
	for k := range a {
		if !b[k] {
			return false
		}
	}
	return true
}

// probeStride: every 32nd shard (2048 of them, the offset varies with state and ring) is looked up
// while a Refresh is in progress.
const probeStride = 32

// probeRefresh runs inside the health filter, i.e. between the moment Refresh has resolved the new
// host list and the moment it returns. The statement holds "for every digest" at every moment a
// caller can observe the ring, so each lookup made here is judged
//   - against the membership the ring itself reports at this moment (Members()): non-empty,
//     members only, no duplicates, at most MaxReplica;
//   - as a whole: the ring must be in a state the host list and the filter have actually defined,
//     i.e. Members() is the previous or the new host list and the replica set is the one the
//     statement prescribes for that membership together with ITS health set (a mixture such as
//     new members ranked against the health verdicts of the old members is neither).
//
// It returns a violation message ("" = fine) and the number of lookups judged. Everything happens
// on the goroutine that called Refresh, so there is no interleaving and no timing involved.
func probeRefresh(c Case, si, ri int, r hashring.Ring, prev, next *snapshot) (msg string, n int) {
	defer func() {
		if p := recover(); p != nil {
			msg = fmt.Sprintf("panic during a lookup made while Refresh is in progress (state %d ring %d): %v", si, ri, p)
		}
	}()
	where := fmt.Sprintf("during the Refresh from state %d to state %d, ring %d", si-1, si, ri)
	reported := map[string]bool{}
	for a := range r.Members() {
		reported[a] = true
	}
	var cands []*snapshot
	if sameSet(reported, prev.memberSet) {
		cands = append(cands, prev)
	}
	if sameSet(reported, next.memberSet) {
		cands = append(cands, next)
	}
	if len(cands) == 0 {
		return fmt.Sprintf("membership reported while a Refresh is in progress is neither the previous nor the new host list (%s: Members() %v, previous %v, new %v)",
			where, keysOf(reported), prev.members, next.members), 1
	}
	for _, m := range keysOf(reported) {
		if !r.Contains(m) {
			return fmt.Sprintf("Contains disagrees with Members while a Refresh is in progress (%s: %s)", where, m), 1
		}
	}
	scratch := make([]ranked, 0, len(prev.members)+len(next.members))
	var kb [2]byte
	for shard := (si*5 + ri*11) % probeStride; shard < nShards; shard += probeStride {
		kb[0], kb[1] = byte(shard>>8), byte(shard)
		shardHex := hex.EncodeToString(kb[:])
		d, err := core.NewSHA256DigestFromHex(shardHex + c.Suffix)
		if err != nil {
			return "harness: digest: " + err.Error(), n
		}
		got := r.Locations(d)
		n++
		detail := func() string {
			return fmt.Sprintf("%s shard %s: got %v; Members() %v; previous state members %v healthy %v; new state members %v healthy %v; MaxReplica %d",
				where, shardHex, got, keysOf(reported), prev.members, prev.healthyList, next.members, next.healthyList, c.MaxReplica)
		}
		if len(got) == 0 {
			return "replica set is empty while a Refresh is in progress (" + detail() + ")", n
		}
		seen := map[string]bool{}
		for _, a := range got {
			if !reported[a] {
				return "replica set contains a host that is not a current member while a Refresh is in progress (" + detail() + ")", n
			}
			if seen[a] {
				return "replica set contains a host twice while a Refresh is in progress (" + detail() + ")", n
			}
			seen[a] = true
		}
		if len(got) > c.MaxReplica {
			return "replica set is larger than MaxReplica while a Refresh is in progress (" + detail() + ")", n
		}
		ok := false
		for _, s := range cands {
			exp, _, unambiguous := expected(kb[:], s.members, s.healthy, s.anyHealthy, c.MaxReplica, scratch)
			if judge(got, exp, unambiguous, s.memberSet, s.healthy, s.anyHealthy, c.MaxReplica) == "" {
				ok = true
				break
			}
		}
		if !ok {
			return "replica set observed while a Refresh is in progress is prescribed neither by the previous nor by the new membership/health state (" + detail() + ")", n
		}
	}
	return "", n
}

func keysOf(m map[string]bool) []string {
	out := make([]string, 0, len(m))
	for k := range m {
		out = append(out, k)
	}
	sort.Strings(out)
	return out
}

// judge compares one Locations result with the statement. It returns "" when the result is acceptable.
func judge(got, exp []string, unambiguous bool, members, healthy map[string]bool, anyHealthy bool, maxReplica int) string {
	if len(got) == 0 {
		return "replica set is empty"
	}
	seen := map[string]bool{}
	for _, a := range got {
		if !members[a] {
			return "replica set contains a host that is not a current member"
		}
		if seen[a] {
			return "replica set contains a host twice"
		}
		seen[a] = true
		if anyHealthy && !healthy[a] {
			return "replica set contains an unhealthy host although a healthy member exists"
		}
	}
	if len(got) > maxReplica {
		return "replica set is larger than MaxReplica"
	}
	if !anyHealthy && len(got) != 1 {
		return "no member is healthy but the replica set is not the single top owner"
	}
	if !unambiguous {
		return "" // two members have indistinguishable scores for this shard: rank-dependent assertions are skipped
	}
	if !equalStrings(got, exp) {
		return "replica set differs from the one the statement prescribes"
	}
	return ""
}

func equalInts(a, b []int) bool {
	if len(a) != len(b) {
		return false
	}
	for i := range a {
		if a[i] != b[i] {
			return false
		}
	}
	return true
}

func TestProp(t *testing.T) {
	// The code under test allocates several small objects per score evaluation; a larger GC target
	// only trades a few MB of heap for less collector work.
	debug.SetGCPercent(400)
	pbt.Main(t, pbt.Spec{
		ID: "C21",
		Rule: "generated configuration = 1-12 distinct host:port strings, MaxReplica 1-6, a 60-digit digest suffix and 1-3 membership/health states " +
			"(health: all, none, only 1-2 healthy, few unhealthy, random; next membership: unchanged, one removed, one added, one swapped, random, every host replaced, the previously healthy hosts replaced); " +
			"three hashring.Ring objects are built on a host-list stub and a health-filter stub (each discovers the hosts in its own map order), later states arrive through Refresh; " +
			"in every state ALL 65536 shard prefixes are looked up on all three rings and compared with the replica set prescribed by the statement, " +
			"computed from the harness's own weighted-rendezvous ranking (murmur3 directly, lib/hrw not used), and the three rings must agree; " +
			"in addition, while each Refresh is in progress (from inside the health-filter stub, same goroutine) 2048 shards are looked up on the ring being refreshed: " +
			"each result must be non-empty, duplicate-free, <= MaxReplica and within the Members() reported at that moment, and Members() plus the result must be what the statement prescribes " +
			"for either the whole previous or the whole new membership/health state; " +
			"evaluations = Locations calls judged; a case is non-trivial when some state has >=2 members and at least one shard whose top owners are partly or wholly unhealthy; " +
			"distinct = distinct (members, healthy, MaxReplica) states among those",
		Assumptions: []string{
			"ownership ranking = weighted rendezvous hashing as documented in lib/hrw (murmur3-64 of shard bytes||address, equal weights), re-implemented in the harness",
			"the health filter returns a subset of the addresses it is given and the host list is never empty (both guaranteed by the real implementations)",
			"MaxReplica >= 1 (0 selects an undocumented default and is not generated)",
			"host discovery order is Go map iteration order, which the harness cannot pin; three rings per configuration sample it",
		},
		Parts: []pbt.Part{pbt.NewPart("ring", 1, gen, run)},
	})
}
