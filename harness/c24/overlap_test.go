package c24

import (
	"fmt"
	"sync"
	"time"

	"github.com/andres-erbsen/clock"
	"github.com/uber/kraken/lib/healthcheck"
	"github.com/uber/kraken/utils/stringset"
	"pgregory.net/rapid"

	"verif/internal/pbt"
)

// Part overlap: Failed calls that overlap in time. The harness owns the clock, so it
// can hold one Failed call at the instant it reads the time ("stalled"), let the clock
// advance and further Failed calls arrive meanwhile, and release it. A failure is
// recorded at some instant of its call; the oracle accepts a Run result iff some choice
// of one instant per call, each within that call's duration, explains it.

const (
	ovFail    = 0 // PassiveFilter.Failed(host), runs to completion
	ovAdvance = 1
	ovRun     = 2 // PassiveFilter.Run(all hosts)
	ovStall   = 3 // start Failed(host) and hold it where it reads the clock
	ovCFail   = 4 // start Failed(host) while a call is stalled (it may or may not get through)
	ovRelease = 5 // let the stalled call go; wait for every outstanding call
)

type OvOp struct {
	Kind int   `json:"k"`
	Host int   `json:"h,omitempty"`
	D    int64 `json:"d,omitempty"`
}

type OvCase struct {
	Hosts       int    `json:"hosts"`
	Fails       int    `json:"fails"`
	FailTimeout int64  `json:"fail_timeout"`
	Ops         []OvOp `json:"ops"`
}

func genOv(t *rapid.T) OvCase {
	c := OvCase{
		Hosts:       rapid.IntRange(1, 3).Draw(t, "hosts"),
		Fails:       rapid.SampledFrom([]int{1, 2, 2, 3}).Draw(t, "fails"),
		FailTimeout: rapid.SampledFrom([]int64{2, 10, 1000, int64(time.Second)}).Draw(t, "ft"),
	}
	ft := c.FailTimeout
	steps := []int64{0, 1, ft / 2, ft - ft/2, ft - 1, ft, ft + 1, 2 * ft}
	n := rapid.IntRange(3, 30).Draw(t, "nops")
	stalled, stalledHost, episodes, cfails, advs := false, 0, 0, 0, 0
	for i := 0; i < n; i++ {
		var op OvOp
		if stalled {
			ks := []int{ovRelease}
			if cfails < 3 {
				ks = append(ks, ovCFail, ovCFail)
			}
			if advs < 2 {
				ks = append(ks, ovAdvance, ovAdvance)
			}
			op.Kind = rapid.SampledFrom(ks).Draw(t, "k")
		} else {
			ks := []int{ovFail, ovFail, ovAdvance, ovAdvance, ovRun, ovRun}
			if episodes < 2 {
				ks = append(ks, ovStall, ovStall)
			}
			op.Kind = rapid.SampledFrom(ks).Draw(t, "k")
		}
		switch op.Kind {
		case ovFail:
			op.Host = rapid.IntRange(0, c.Hosts-1).Draw(t, "h")
		case ovStall:
			op.Host = rapid.IntRange(0, c.Hosts-1).Draw(t, "h")
			stalled, stalledHost, cfails, advs = true, op.Host, 0, 0
			episodes++
		case ovCFail:
			op.Host = stalledHost
			if rapid.IntRange(0, 3).Draw(t, "other") == 0 {
				op.Host = rapid.IntRange(0, c.Hosts-1).Draw(t, "h")
			}
			cfails++
		case ovAdvance:
			op.D = rapid.SampledFrom(steps).Draw(t, "d")
			if stalled {
				advs++
			}
		case ovRelease:
			stalled = false
		}
		c.Ops = append(c.Ops, op)
	}
	if stalled {
		c.Ops = append(c.Ops, OvOp{Kind: ovRelease})
	}
	// Always end by looking at the result, now and one FailTimeout step later.
	c.Ops = append(c.Ops, OvOp{Kind: ovRun}, OvOp{Kind: ovAdvance, D: rapid.SampledFrom(steps).Draw(t, "tail")}, OvOp{Kind: ovRun})
	return c
}

// gateClock is a clock.Clock whose Now is set by the timeline and whose next Now call can
// be held: the held caller has read the time and stays parked until released.
type gateClock struct {
	*clock.Mock
	mu      sync.Mutex
	now     time.Time
	armed   bool
	parked  chan struct{}
	release chan struct{}
}

func (c *gateClock) Now() time.Time {
	c.mu.Lock()
	t := c.now
	if c.armed {
		c.armed = false
		parked, release := c.parked, c.release
		c.mu.Unlock()
		close(parked)
		<-release
		return t
	}
	c.mu.Unlock()
	return t
}

func (c *gateClock) add(d int64) {
	c.mu.Lock()
	c.now = c.now.Add(time.Duration(d))
	c.mu.Unlock()
}

type ovCall struct {
	host   int
	lo, hi int // indices into the clock history: the call lasted from instant lo to instant hi
	done   chan struct{}
}

func validOv(c OvCase) bool {
	if c.Hosts < 1 || c.Hosts > 8 || c.Fails < 1 || c.FailTimeout < 1 {
		return false
	}
	stalled := false
	for _, op := range c.Ops {
		if op.Host < 0 || op.Host >= c.Hosts || op.D < 0 {
			return false
		}
		switch op.Kind {
		case ovFail, ovRun:
			if stalled {
				return false // would wait for the held call
			}
		case ovStall:
			if stalled {
				return false
			}
			stalled = true
		case ovCFail:
			if !stalled {
				return false
			}
		case ovRelease:
			if !stalled {
				return false
			}
			stalled = false
		case ovAdvance:
		default:
			return false
		}
	}
	return !stalled
}

func runOv(c OvCase) pbt.Verdict {
	if !validOv(c) {
		return pbt.Verdict{Discard: true}
	}
	clk := &gateClock{Mock: clock.NewMock(), now: time.Unix(1500000000, 0)}
	pf := healthcheck.NewPassiveFilter(healthcheck.PassiveFilterConfig{Fails: c.Fails, FailTimeout: time.Duration(c.FailTimeout)}, clk)

	hist := []int64{0} // the instants the clock has shown, in order
	cur := func() int { return len(hist) - 1 }
	var calls []*ovCall
	var outstanding []*ovCall
	var log []string
	var evals, overlapped, passedHeld, judgedAfterOverlap, unjudged int
	note := func(f string, a ...interface{}) { log = append(log, fmt.Sprintf(f, a...)) }
	start := func(h int) *ovCall {
		k := &ovCall{host: h, lo: cur(), hi: -1, done: make(chan struct{})}
		calls = append(calls, k)
		go func() {
			pf.Failed(name(h))
			close(k.done)
		}()
		return k
	}
	returned := func(k *ovCall, wait time.Duration) bool {
		select {
		case <-k.done:
			return true
		case <-time.After(wait):
			return false
		}
	}
	history := func() string {
		s := ""
		for _, l := range log {
			s += "\n    " + l
		}
		return s
	}
	for i, op := range c.Ops {
		switch op.Kind {
		case ovFail:
			k := start(op.Host)
			if !returned(k, 20*time.Second) {
				return pbt.Verdict{Discard: true, Classes: []string{"failed-call-did-not-return"}}
			}
			k.hi = cur()
			note("%d: t=%d Failed(host%d)", i, hist[cur()], op.Host)
		case ovAdvance:
			if op.D > 0 {
				clk.add(op.D)
				hist = append(hist, hist[cur()]+op.D)
			}
			note("%d: clock +%d -> t=%d", i, op.D, hist[cur()])
		case ovStall:
			clk.mu.Lock()
			clk.armed, clk.parked, clk.release = true, make(chan struct{}), make(chan struct{})
			parked := clk.parked
			clk.mu.Unlock()
			k := start(op.Host)
			select {
			case <-parked:
			case <-k.done:
				// The call finished without reading the clock: nothing is held.
				clk.mu.Lock()
				clk.armed = false
				clk.mu.Unlock()
			case <-time.After(20 * time.Second):
				return pbt.Verdict{Discard: true, Classes: []string{"stalled-call-did-not-park"}}
			}
			outstanding = append(outstanding, k)
			note("%d: t=%d Failed(host%d) begins and is held where it reads the clock", i, hist[cur()], op.Host)
		case ovCFail:
			k := start(op.Host)
			if returned(k, 3*time.Millisecond) {
				k.hi = cur()
				passedHeld++
				note("%d: t=%d Failed(host%d) (while a call is held) returned", i, hist[cur()], op.Host)
			} else {
				outstanding = append(outstanding, k)
				note("%d: t=%d Failed(host%d) (while a call is held) begins, has not returned yet", i, hist[cur()], op.Host)
			}
			overlapped++
		case ovRelease:
			clk.mu.Lock()
			clk.armed = false
			rel := clk.release
			clk.mu.Unlock()
			close(rel)
			for _, k := range outstanding {
				if k.hi >= 0 {
					continue
				}
				if !returned(k, 20*time.Second) {
					return pbt.Verdict{Discard: true, Classes: []string{"failed-call-did-not-return"}}
				}
				k.hi = cur()
			}
			outstanding = nil
			note("%d: t=%d the held call is released; every call has returned", i, hist[cur()])
		case ovRun:
			all := stringset.New()
			for h := 0; h < c.Hosts; h++ {
				all.Add(name(h))
			}
			got := pf.Run(all)
			evals++
			now := hist[cur()]
			note("%d: t=%d Run -> %v", i, now, names(got))
			for x := range got {
				if !all.Has(x) {
					return pbt.Fail("Run result contains a host that is not in the list: %v\n  history:%s", names(got), history())
				}
			}
			for h := 0; h < c.Hosts; h++ {
				// Every choice of one instant per call of this host within the call's duration.
				var fixed []int64
				var open [][]int64
				combos := 1
				for _, k := range calls {
					if k.host != h {
						continue
					}
					var cand []int64
					for j := k.lo; j <= k.hi; j++ {
						cand = append(cand, hist[j])
					}
					if len(cand) == 1 {
						fixed = append(fixed, cand[0])
					} else {
						open = append(open, cand)
						combos *= len(cand)
					}
				}
				if combos > 20000 {
					unjudged++
					continue
				}
				if len(open) > 0 {
					judgedAfterOverlap++
				}
				filtered := !got.Has(name(h))
				explained := false
				idx := make([]int, len(open))
				times := make([]int64, len(fixed)+len(open))
				copy(times, fixed)
				for {
					for j, cnd := range open {
						times[len(fixed)+j] = cnd[idx[j]]
					}
					one, two, _ := judge(times, now, c.Fails, c.FailTimeout)
					if filtered == one || filtered == two {
						explained = true
						break
					}
					j := 0
					for ; j < len(idx); j++ {
						idx[j]++
						if idx[j] < len(open[j]) {
							break
						}
						idx[j] = 0
					}
					if j == len(idx) {
						break
					}
				}
				if !explained {
					what := "is filtered out although no placement of its failures makes it unhealthy"
					if !filtered {
						what = "is not filtered out although every placement of its failures within their calls makes it unhealthy"
					}
					return pbt.Fail("host%d %s (Fails=%d FailTimeout=%dns, t=%d)\n  history:%s", h, what, c.Fails, c.FailTimeout, now, history())
				}
			}
		}
	}
	var cl []string
	add := func(n int, s string) {
		if n > 0 {
			cl = append(cl, s)
		}
	}
	add(overlapped, "failed-call-began-while-another-was-held")
	add(passedHeld, "failed-call-returned-while-another-was-held")
	add(judgedAfterOverlap, "host-judged-with-overlapping-failures")
	add(unjudged, "host-unjudged-too-many-placements")
	v := pbt.OK(judgedAfterOverlap > 0 && overlapped > 0, cl...)
	v.Evals = evals
	return v
}
