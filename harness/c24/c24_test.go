// C24 — passive health filtering follows its failure-window rule.
package c24

import (
	"fmt"
	"sort"
	"testing"
	"time"

	"github.com/andres-erbsen/clock"
	"github.com/uber/kraken/lib/healthcheck"
	"github.com/uber/kraken/utils/stringset"
	"pgregory.net/rapid"

	"verif/internal/pbt"
)

// Op kinds.
const (
	opFailFilter  = 0 // PassiveFilter.Failed(host)
	opFailPassive = 1 // Passive.Failed(host)
	opAdvance     = 2 // clock advances by D nanoseconds
	opRun         = 3 // PassiveFilter.Run(list)
	opResolve     = 4 // hosts list becomes List; Passive.Resolve()
)

type Op struct {
	Kind int   `json:"k"`
	Host int   `json:"h,omitempty"`
	D    int64 `json:"d,omitempty"`
	List []int `json:"list,omitempty"`
}

type Case struct {
	Hosts       int   `json:"hosts"`
	Fails       int   `json:"fails"`        // 0 = documented default 3
	FailTimeout int64 `json:"fail_timeout"` // ns; 0 = documented default 5 min
	Ops         []Op  `json:"ops"`
}

func name(i int) string { return fmt.Sprintf("host%d:80", i) }

func effective(c Case) (fails int, ft int64) {
	fails, ft = c.Fails, c.FailTimeout
	if fails == 0 {
		fails = 3
	}
	if ft == 0 {
		ft = int64(5 * time.Minute)
	}
	return
}

func gen(t *rapid.T) Case {
	c := Case{
		Hosts:       rapid.SampledFrom([]int{1, 2, 3, 3, 4}).Draw(t, "hosts"),
		Fails:       rapid.SampledFrom([]int{1, 2, 3, 1, 2, 3, 2, 3, 0}).Draw(t, "fails"),
		FailTimeout: rapid.SampledFrom([]int64{2, 10, 10, 1000, int64(time.Second), int64(5 * time.Minute), 0}).Draw(t, "ft"),
	}
	_, ft := effective(c)
	// Advances: multiples of FailTimeout and values one nanosecond around it, plus small steps
	// whose sums land on the boundary.
	steps := []int64{0, 1, ft / 2, ft - ft/2, ft - 1, ft, ft + 1, 2 * ft, ft / 3, 1, ft / 2, ft}
	n := rapid.IntRange(0, 50).Draw(t, "nops")
	for i := 0; i < n; i++ {
		k := rapid.SampledFrom([]int{opFailFilter, opFailFilter, opFailFilter, opFailPassive, opAdvance, opAdvance, opAdvance, opRun, opRun, opResolve, opResolve}).Draw(t, "k")
		op := Op{Kind: k}
		switch k {
		case opFailFilter, opFailPassive:
			op.Host = rapid.IntRange(0, c.Hosts-1).Draw(t, "h")
		case opAdvance:
			op.D = rapid.SampledFrom(steps).Draw(t, "d")
		case opRun, opResolve:
			op.List = []int{}
			for h := 0; h < c.Hosts; h++ {
				if rapid.IntRange(0, 9).Draw(t, "in") < 8 {
					op.List = append(op.List, h)
				}
			}
		}
		c.Ops = append(c.Ops, op)
	}
	return c
}

func valid(c Case) bool {
	if c.Hosts < 1 || c.Hosts > 16 || c.Fails < 0 || c.FailTimeout < 0 {
		return false
	}
	for _, op := range c.Ops {
		if op.Kind < 0 || op.Kind > opResolve || op.D < 0 || op.Host < 0 || op.Host >= c.Hosts {
			return false
		}
		for i, h := range op.List {
			if h < 0 || h >= c.Hosts || (i > 0 && op.List[i-1] >= h) {
				return false
			}
		}
	}
	return true
}

// judge is the oracle, computed literally from the statement over the recorded failure
// times of one host: filtered at time now iff some failure t with now-t <= FailTimeout has
// at least Fails recorded failures in the FailTimeout window ending at t.
//
//	oneSided : window [t-FailTimeout, t]  (config doc: "FailTimeout is the window of time during which Fails must occur")
//	twoSided : |t'-t| <= FailTimeout        (the other literal reading of "within FailTimeout of some failure")
//	strict   : oneSided with every "<=" replaced by "<" (to recognise evaluations decided by an exact boundary)
func judge(times []int64, now int64, fails int, ft int64) (oneSided, twoSided, strict bool) {
	for _, t := range times {
		age := now - t
		if age > ft {
			continue
		}
		c1, c2, cs := 0, 0, 0
		for _, u := range times {
			if u <= t && t-u <= ft {
				c1++
			}
			if u <= t && t-u < ft {
				cs++
			}
			d := u - t
			if d < 0 {
				d = -d
			}
			if d <= ft {
				c2++
			}
		}
		if c1 >= fails {
			oneSided = true
		}
		if c2 >= fails {
			twoSided = true
		}
		if cs >= fails && age < ft {
			strict = true
		}
	}
	return
}

// stepClock is the time source: the library's mock (for the interface's timer methods, unused by
// the passive filter) with Now driven by the timeline. clock.Mock.Add sleeps 1 ms of real time per
// call, which would dominate the run time.
type stepClock struct {
	*clock.Mock
	now time.Time
}

func (c *stepClock) Now() time.Time { return c.now }

type fixedList struct{ cur stringset.Set }

func (l *fixedList) Resolve() stringset.Set { return l.cur.Copy() }

func names(s stringset.Set) []string {
	out := s.ToSlice()
	sort.Strings(out)
	return out
}

func run(c Case) pbt.Verdict {
	if !valid(c) {
		return pbt.Verdict{Discard: true}
	}
	fails, ft := effective(c)
	clk := &stepClock{Mock: clock.NewMock(), now: time.Unix(1500000000, 0)}
	pf := healthcheck.NewPassiveFilter(healthcheck.PassiveFilterConfig{Fails: c.Fails, FailTimeout: time.Duration(c.FailTimeout)}, clk)
	hosts := &fixedList{cur: stringset.New()}
	passive := healthcheck.NewPassive(hosts, pf)

	var now int64
	rec := map[int][]int64{}       // recorded failure times per host
	everFiltered := map[int]bool{} // host observed filtered out by an earlier evaluation
	var evals, sawFiltered, sawExpired, boundary, disagree, fallback, emptyList int

	// expect returns the hosts of list that must be in the result, those that must be absent,
	// and those for which the two readings of the statement disagree (either accepted).
	type exp struct{ in, out, either []int }
	expect := func(list []int) exp {
		var e exp
		for _, h := range list {
			one, two, strict := judge(rec[h], now, fails, ft)
			switch {
			case one != two:
				disagree++
				e.either = append(e.either, h)
			case one:
				e.out = append(e.out, h)
			default:
				e.in = append(e.in, h)
			}
			if one == two {
				if one != strict {
					boundary++
				}
				if one {
					sawFiltered++
					everFiltered[h] = true
				} else if everFiltered[h] {
					sawExpired++
					everFiltered[h] = false
				}
			}
		}
		return e
	}
	describe := func(i int, what string, list []int) string {
		s := fmt.Sprintf("op %d (%s) at t=%dns list=%v Fails=%d FailTimeout=%dns; recorded failures:", i, what, now, list, fails, ft)
		for _, h := range list {
			s += fmt.Sprintf(" host%d=%v", h, rec[h])
		}
		return s
	}

	for i, op := range c.Ops {
		switch op.Kind {
		case opFailFilter:
			pf.Failed(name(op.Host))
			rec[op.Host] = append(rec[op.Host], now)
		case opFailPassive:
			passive.Failed(name(op.Host))
			rec[op.Host] = append(rec[op.Host], now)
		case opAdvance:
			clk.now = clk.now.Add(time.Duration(op.D))
			now += op.D
		case opRun:
			addrs := stringset.New()
			for _, h := range op.List {
				addrs.Add(name(h))
			}
			got := pf.Run(addrs)
			evals++
			e := expect(op.List)
			for x := range got {
				if !addrs.Has(x) {
					return pbt.Fail("Run result contains a host that is not in the list\n%s got=%v", describe(i, "Run", op.List), names(got))
				}
			}
			for _, h := range e.in {
				if !got.Has(name(h)) {
					return pbt.Fail("healthy host filtered out\nhost%d; %s got=%v", h, describe(i, "Run", op.List), names(got))
				}
			}
			for _, h := range e.out {
				if got.Has(name(h)) {
					return pbt.Fail("unhealthy host not filtered out\nhost%d; %s got=%v", h, describe(i, "Run", op.List), names(got))
				}
			}
		case opResolve:
			hosts.cur = stringset.New()
			for _, h := range op.List {
				hosts.cur.Add(name(h))
			}
			got := passive.Resolve()
			evals++
			e := expect(op.List)
			if len(op.List) == 0 {
				emptyList++
			}
			for x := range got {
				if !hosts.cur.Has(x) {
					return pbt.Fail("Resolve result contains a host that is not in the list\n%s got=%v", describe(i, "Resolve", op.List), names(got))
				}
			}
			if len(op.List) > 0 && len(got) == 0 {
				return pbt.Fail("Passive.Resolve returned an empty set for a non-empty host list\n%s", describe(i, "Resolve", op.List))
			}
			switch {
			case len(e.in) == 0 && len(e.either) == 0:
				// Every host is filtered out: documented fallback "If all hosts are unhealthy, returns all hosts".
				if len(op.List) > 0 {
					fallback++
				}
				if !stringset.Equal(got, hosts.cur) {
					return pbt.Fail("all hosts unhealthy but Resolve did not return all hosts\n%s got=%v", describe(i, "Resolve", op.List), names(got))
				}
			case len(e.in) == 0:
				// Only ambiguous hosts could be healthy: either the fallback (all) or a subset; judge nothing more.
			default:
				for _, h := range e.in {
					if !got.Has(name(h)) {
						return pbt.Fail("healthy host filtered out\nhost%d; %s got=%v", h, describe(i, "Resolve", op.List), names(got))
					}
				}
				for _, h := range e.out {
					if got.Has(name(h)) {
						return pbt.Fail("unhealthy host not filtered out\nhost%d; %s got=%v", h, describe(i, "Resolve", op.List), names(got))
					}
				}
			}
		}
	}

	var cl []string
	add := func(n int, s string) {
		if n > 0 {
			cl = append(cl, s)
		}
	}
	add(sawFiltered, "host-observed-filtered")
	add(sawExpired, "filtered-host-observed-healthy-again")
	add(boundary, "decided-by-exact-FailTimeout-boundary")
	add(fallback, "all-unhealthy-fallback")
	add(disagree, "statement-readings-disagree(either-accepted)")
	add(emptyList, "empty-list-resolve")
	v := pbt.OK(sawFiltered > 0 && (sawExpired > 0 || boundary > 0), cl...)
	v.Evals = evals
	if evals == 0 {
		v.Evals = 1
	}
	return v
}

func TestProp(t *testing.T) {
	pbt.Main(t, pbt.Spec{
		ID: "C24",
		Rule: "timelines of up to 50 operations over 1-4 hosts on one PassiveFilter (mock clock) and a Passive list wrapping it: Failed(host) via filter or list, clock advances " +
			"(0, 1ns, FailTimeout/3, /2, FailTimeout-1ns, FailTimeout, FailTimeout+1ns, 2*FailTimeout), Run(subset) and Resolve(subset); Fails 1-3 (or default), FailTimeout 2ns..5min (or default); " +
			"every Run/Resolve result is compared with the rule evaluated literally over the recorded failure times (host filtered iff a failure no older than FailTimeout has >= Fails failures in the FailTimeout window ending at it); " +
			"Resolve additionally must be non-empty for a non-empty list and equal to the whole list when every host is filtered; an evaluation is one Run/Resolve; " +
			"part overlap: the harness's clock holds one Failed call at the instant it reads the time, advances and starts further Failed calls meanwhile, then releases it; a failure is recorded at some instant of its call, and a Run result must be explained by some placement of every failure within its call; " +
			"non-trivial = a host was observed filtered and an evaluation was either decided by an exact FailTimeout boundary or saw a filtered host healthy again (overlap: a host with overlapping Failed calls was judged); distinct by case hash",
		Assumptions: []string{
			"oracle: the window rule computed from the recorded failure times (reference written from the statement and the PassiveFilterConfig doc)",
			"the window is the FailTimeout interval ending at the anchoring failure (config doc); where the two-sided reading of 'within FailTimeout of some failure' gives a different answer either result is accepted",
			"the time source is a clock.Clock whose Now is set by the timeline (the filter reads nothing else)",
			"overlap part: interleavings are owned only at the clock read of one held call; a call that has not returned within 3 ms is treated as still running (wider set of accepted placements, never a narrower one)",
		},
		Parts: []pbt.Part{pbt.NewPart("timeline", 9, gen, run), pbt.NewPart("overlap", 1, genOv, runOv)},
	})
}
