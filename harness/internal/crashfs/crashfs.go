// Package crashfs is the crash-point engine (DESIGN.md E2).
//
// A workload runs in a child process under ptrace. At the entry of every system
// call that mutates a watched directory tree the tracer — while the calling
// thread is stopped — copies the tree to a snapshot directory. Mutating system
// calls are serialised (a second thread arriving at such an entry is held until
// the first one has left the kernel), so snapshot k is exactly "the first k
// mutating system calls completed and nothing later happened": the process-crash
// model of the properties. The child brackets its API operations with marker
// system calls so that each snapshot is labelled (operations completed, operation
// in flight).
package crashfs

import (
	"bytes"
	"crypto/sha256"
	"encoding/hex"
	"fmt"
	"io"
	"os"
	"os/exec"
	"path/filepath"
	"regexp"
	"runtime"
	"sort"
	"strings"
	"syscall"
	"time"
	"unsafe"
)

const markerFD = 999

// Mark is called by the child around each API operation: phase 0 = operation i
// starts, phase 1 = operation i returned.
func Mark(i int, phase int) {
	syscall.Syscall(syscall.SYS_WRITE, markerFD, 0, uintptr(i*2+phase+1))
}

// ChildEnv is the environment variable that carries the workload (a file path) to the child.
const ChildEnv = "VERIF_CRASH_CHILD"

// Snapshot is one crash state.
type Snapshot struct {
	Index   int    // number of mutating system calls that completed before this state
	Dir     string // copy of the watched tree
	OpsDone int    // API operations that had returned
	InOp    int    // API operation in flight, or -1 when between operations
	Syscall string // the system call that was about to execute ("exit" for the final state)
}

// Config describes one traced run.
type Config struct {
	Root    string   // watched directory (absolute)
	SnapDir string   // where snapshots are written (outside Root)
	Path    string   // executable (default: os.Args[0])
	Args    []string // arguments (default: -test.run=^$)
	Env     []string // extra environment
	Timeout time.Duration
	// MaxSnapshots bounds the number of snapshots taken (0 = 4000); further
	// mutating system calls run without a snapshot and Truncated is set.
	MaxSnapshots int
}

// Trace is the result of a traced run.
type Trace struct {
	Snapshots []Snapshot
	Stops     int
	ExitCode  int
	Truncated bool
	Output    string
}

type sysInfo struct {
	Op    uint8
	_     [3]uint8
	Arch  uint32
	IP    uint64
	SP    uint64
	Nr    uint64 // entry: nr; exit: rval
	Args  [6]uint64
	Extra [8]uint64
}

const (
	ptraceGetSyscallInfo = 0x420e
	opEntry              = 1
	opExit               = 2
	optExitKill          = 0x100000
	atFDCWD              = -100
)

var sysNames = map[uint64]string{
	1: "write", 18: "pwrite64", 20: "writev", 296: "pwritev", 328: "pwritev2", 40: "sendfile", 326: "copy_file_range", 275: "splice",
	2: "open", 257: "openat", 85: "creat", 437: "openat2",
	82: "rename", 264: "renameat", 316: "renameat2", 83: "mkdir", 258: "mkdirat", 84: "rmdir", 87: "unlink", 263: "unlinkat",
	86: "link", 265: "linkat", 88: "symlink", 266: "symlinkat", 76: "truncate", 77: "ftruncate", 280: "utimensat", 235: "utimes", 132: "utime",
	90: "chmod", 91: "fchmod", 268: "fchmodat", 285: "fallocate", 188: "setxattr", 190: "fsetxattr",
}

type tracer struct {
	cfg   Config
	pid   int
	root  string
	snaps []Snapshot
	stops int

	opsDone int
	inOp    int

	busy  int   // tid currently inside a mutating system call (0 = none)
	held  []int // tids stopped at a mutating entry, waiting for busy to clear
	heldD map[int]string
	trunc bool
}

func (t *tracer) peekString(tid int, addr uint64) string {
	if addr == 0 {
		return ""
	}
	var out []byte
	buf := make([]byte, 256)
	for len(out) < 4096 {
		n, err := syscall.PtracePeekData(tid, uintptr(addr)+uintptr(len(out)), buf)
		if err != nil || n == 0 {
			// retry with a smaller window (page boundary)
			n, err = syscall.PtracePeekData(tid, uintptr(addr)+uintptr(len(out)), buf[:8])
			if err != nil || n == 0 {
				break
			}
		}
		if i := bytes.IndexByte(buf[:n], 0); i >= 0 {
			out = append(out, buf[:i]...)
			return string(out)
		}
		out = append(out, buf[:n]...)
	}
	return string(out)
}

func (t *tracer) fdPath(fd int64) string {
	p, err := os.Readlink(fmt.Sprintf("/proc/%d/fd/%d", t.pid, fd))
	if err != nil {
		return ""
	}
	return p
}

func (t *tracer) resolve(tid int, dirfd int64, addr uint64) string {
	p := t.peekString(tid, addr)
	if p == "" {
		return ""
	}
	if filepath.IsAbs(p) {
		return filepath.Clean(p)
	}
	var base string
	if int32(dirfd) == atFDCWD {
		base, _ = os.Readlink(fmt.Sprintf("/proc/%d/cwd", t.pid))
	} else {
		base = t.fdPath(int64(int32(dirfd)))
	}
	if base == "" {
		return ""
	}
	return filepath.Clean(filepath.Join(base, p))
}

func (t *tracer) under(p string) bool {
	p = strings.TrimSuffix(p, " (deleted)")
	return p == t.root || strings.HasPrefix(p, t.root+"/")
}

// mutating reports whether the system call at entry mutates the watched tree and describes it.
func (t *tracer) mutating(tid int, si *sysInfo) (bool, string) {
	nr := si.Nr
	a := si.Args
	name, ok := sysNames[nr]
	if !ok {
		return false, ""
	}
	rel := func(p string) string { return strings.TrimPrefix(p, t.root) }
	switch nr {
	case 1, 18, 20, 296, 328, 77, 91, 285, 190: // fd in arg0
		if int64(a[0]) == markerFD {
			return false, ""
		}
		p := t.fdPath(int64(a[0]))
		if t.under(p) {
			return true, fmt.Sprintf("%s(%s, len=%d)", name, rel(p), a[2])
		}
	case 40: // sendfile(out, in, ...)
		p := t.fdPath(int64(a[0]))
		if t.under(p) {
			return true, fmt.Sprintf("%s(%s)", name, rel(p))
		}
	case 326, 275: // copy_file_range / splice: out fd in arg2
		p := t.fdPath(int64(a[2]))
		if t.under(p) {
			return true, fmt.Sprintf("%s(%s)", name, rel(p))
		}
	case 2, 85: // open(path, flags), creat(path)
		p := t.resolve(tid, atFDCWD, a[0])
		if t.under(p) && (nr == 85 || a[1]&(syscall.O_CREAT|syscall.O_TRUNC) != 0) {
			return true, fmt.Sprintf("%s(%s, %#x)", name, rel(p), a[1])
		}
	case 257: // openat(dirfd, path, flags)
		if a[2]&(syscall.O_CREAT|syscall.O_TRUNC) != 0 {
			p := t.resolve(tid, int64(a[0]), a[1])
			if t.under(p) {
				return true, fmt.Sprintf("%s(%s, %#x)", name, rel(p), a[2])
			}
		}
	case 437: // openat2(dirfd, path, how*, size): flags is first u64 of how
		p := t.resolve(tid, int64(a[0]), a[1])
		if t.under(p) {
			return true, fmt.Sprintf("%s(%s)", name, rel(p))
		}
	case 82, 86, 88: // rename/link/symlink(old, new)
		p1 := t.resolve(tid, atFDCWD, a[0])
		p2 := t.resolve(tid, atFDCWD, a[1])
		if (nr != 88 && t.under(p1)) || t.under(p2) {
			return true, fmt.Sprintf("%s(%s, %s)", name, rel(p1), rel(p2))
		}
	case 264, 316, 265: // renameat(olddirfd, old, newdirfd, new), linkat
		p1 := t.resolve(tid, int64(a[0]), a[1])
		p2 := t.resolve(tid, int64(a[2]), a[3])
		if t.under(p1) || t.under(p2) {
			return true, fmt.Sprintf("%s(%s, %s)", name, rel(p1), rel(p2))
		}
	case 266: // symlinkat(target, newdirfd, linkpath)
		p := t.resolve(tid, int64(a[1]), a[2])
		if t.under(p) {
			return true, fmt.Sprintf("%s(%s)", name, rel(p))
		}
	case 83, 84, 87, 76, 235, 132, 90, 188: // path in arg0
		p := t.resolve(tid, atFDCWD, a[0])
		if t.under(p) {
			return true, fmt.Sprintf("%s(%s)", name, rel(p))
		}
	case 258, 263, 280, 268: // (dirfd, path, ...)
		var p string
		if nr == 280 && a[1] == 0 { // utimensat(fd, NULL, ...) acts on fd
			p = t.fdPath(int64(a[0]))
		} else {
			p = t.resolve(tid, int64(a[0]), a[1])
		}
		if t.under(p) {
			return true, fmt.Sprintf("%s(%s)", name, rel(p))
		}
	}
	return false, ""
}

func (t *tracer) snapshot(desc string) {
	max := t.cfg.MaxSnapshots
	if max == 0 {
		max = 4000
	}
	if len(t.snaps) >= max {
		t.trunc = true
		return
	}
	k := len(t.snaps)
	dir := filepath.Join(t.cfg.SnapDir, fmt.Sprintf("s%05d", k))
	if err := CopyTree(t.root, dir); err != nil {
		// The tree is quiescent (every mutator is stopped), so a copy error is an infrastructure problem.
		panic(fmt.Sprintf("crashfs: snapshot copy failed: %v", err))
	}
	t.snaps = append(t.snaps, Snapshot{Index: k, Dir: dir, OpsDone: t.opsDone, InOp: t.inOp, Syscall: desc})
}

func getSyscallInfo(tid int, si *sysInfo) error {
	_, _, e := syscall.RawSyscall6(syscall.SYS_PTRACE, ptraceGetSyscallInfo, uintptr(tid), unsafe.Sizeof(*si), uintptr(unsafe.Pointer(si)), 0, 0)
	if e != 0 {
		return e
	}
	return nil
}

// Run executes the child under the tracer. It must not be called concurrently
// from several goroutines of one process with the same SnapDir.
func Run(cfg Config) (*Trace, error) {
	type result struct {
		tr  *Trace
		err error
	}
	ch := make(chan result, 1)
	go func() {
		runtime.LockOSThread()
		// The thread is deliberately not unlocked: a thread that was a ptracer is discarded.
		tr, err := run(cfg)
		ch <- result{tr, err}
	}()
	r := <-ch
	return r.tr, r.err
}

func run(cfg Config) (*Trace, error) {
	root, err := filepath.EvalSymlinks(cfg.Root)
	if err != nil {
		return nil, err
	}
	if err := os.MkdirAll(cfg.SnapDir, 0755); err != nil {
		return nil, err
	}
	path := cfg.Path
	if path == "" {
		path = os.Args[0]
	}
	args := cfg.Args
	if args == nil {
		args = []string{"-test.run=^$"}
	}
	outF, err := os.CreateTemp("", "crashfs-out-")
	if err != nil {
		return nil, err
	}
	defer func() { outF.Close(); os.Remove(outF.Name()) }()
	cmd := exec.Command(path, args...)
	cmd.Env = append(os.Environ(), cfg.Env...)
	cmd.Stdout = outF
	cmd.Stderr = outF
	cmd.SysProcAttr = &syscall.SysProcAttr{Ptrace: true}
	if err := cmd.Start(); err != nil {
		return nil, fmt.Errorf("crashfs: start: %v", err)
	}
	pid := cmd.Process.Pid
	t := &tracer{cfg: cfg, pid: pid, root: root, inOp: -1, heldD: map[int]string{}}
	var ws syscall.WaitStatus
	if _, err := syscall.Wait4(pid, &ws, 0, nil); err != nil {
		return nil, fmt.Errorf("crashfs: initial wait: %v", err)
	}
	if !ws.Stopped() {
		return nil, fmt.Errorf("crashfs: child not stopped after exec: %v", ws)
	}
	opts := syscall.PTRACE_O_TRACESYSGOOD | syscall.PTRACE_O_TRACECLONE | syscall.PTRACE_O_TRACEFORK | syscall.PTRACE_O_TRACEVFORK | optExitKill
	if err := syscall.PtraceSetOptions(pid, opts); err != nil {
		syscall.Kill(pid, syscall.SIGKILL)
		return nil, fmt.Errorf("crashfs: setoptions: %v", err)
	}
	known := map[int]bool{pid: true}
	timeout := cfg.Timeout
	if timeout == 0 {
		timeout = 60 * time.Second
	}
	deadline := time.Now().Add(timeout)
	killed := false
	timer := time.AfterFunc(timeout, func() { syscall.Kill(pid, syscall.SIGKILL) })
	defer timer.Stop()
	if err := syscall.PtraceSyscall(pid, 0); err != nil {
		return nil, fmt.Errorf("crashfs: first resume: %v", err)
	}
	exitCode := -1
	for {
		tid, err := syscall.Wait4(-1, &ws, syscall.WALL, nil)
		if err != nil {
			if err == syscall.EINTR {
				continue
			}
			if err == syscall.ECHILD {
				break
			}
			return nil, fmt.Errorf("crashfs: wait4: %v", err)
		}
		if time.Now().After(deadline) {
			killed = true
		}
		if ws.Exited() || ws.Signaled() {
			if tid == pid {
				if ws.Exited() {
					exitCode = ws.ExitStatus()
				}
				break
			}
			if t.busy == tid {
				t.busy = 0
				t.release()
			}
			continue
		}
		if !ws.Stopped() {
			continue
		}
		t.stops++
		sig := ws.StopSignal()
		cont := 0
		switch {
		case sig == syscall.SIGTRAP|0x80:
			var si sysInfo
			if err := getSyscallInfo(tid, &si); err != nil {
				break
			}
			if si.Op == opEntry {
				if si.Nr == 1 && int64(si.Args[0]) == markerFD {
					n := int(si.Args[2]) - 1
					if n >= 0 {
						if n%2 == 0 {
							t.inOp = n / 2
						} else {
							t.opsDone = n/2 + 1
							t.inOp = -1
						}
					}
					break
				}
				if mut, desc := t.mutating(tid, &si); mut {
					if t.busy != 0 && t.busy != tid {
						t.held = append(t.held, tid)
						t.heldD[tid] = desc
						continue // keep it stopped
					}
					t.busy = tid
					t.snapshot(desc)
				}
			} else if si.Op == opExit {
				if t.busy == tid {
					t.busy = 0
					t.release()
				}
			}
		case sig == syscall.SIGTRAP && ws.TrapCause() > 0:
			// clone/fork/exec event: the new task is auto-attached
		case sig == syscall.SIGSTOP && !known[tid]:
			known[tid] = true // initial stop of an auto-attached task
		case sig == syscall.SIGTRAP:
			// exec trap or similar
		default:
			cont = int(sig) // deliver the signal (Go uses SIGURG for preemption)
		}
		known[tid] = true
		syscall.PtraceSyscall(tid, cont)
	}
	_ = killed
	// Final state.
	t.inOp = -1
	t.snapshot("exit")
	// reap anything left
	for {
		if _, err := syscall.Wait4(-1, &ws, syscall.WALL|syscall.WNOHANG, nil); err != nil {
			break
		}
	}
	cmd.Process.Release()
	ob, _ := os.ReadFile(outF.Name())
	if len(ob) > 8000 {
		ob = ob[len(ob)-8000:]
	}
	return &Trace{Snapshots: t.snaps, Stops: t.stops, ExitCode: exitCode, Truncated: t.trunc, Output: string(ob)}, nil
}

// release lets the next held thread proceed into its mutating system call.
func (t *tracer) release() {
	for len(t.held) > 0 && t.busy == 0 {
		tid := t.held[0]
		t.held = t.held[1:]
		desc := t.heldD[tid]
		delete(t.heldD, tid)
		t.busy = tid
		t.snapshot(desc)
		if err := syscall.PtraceSyscall(tid, 0); err != nil {
			t.busy = 0
		}
	}
}

// CopyTree copies a directory tree (regular files, directories, symlinks) preserving modes and mtimes.
func CopyTree(src, dst string) error {
	return filepath.Walk(src, func(p string, info os.FileInfo, err error) error {
		if err != nil {
			return err
		}
		rel, _ := filepath.Rel(src, p)
		target := filepath.Join(dst, rel)
		switch {
		case info.IsDir():
			if err := os.MkdirAll(target, 0755); err != nil {
				return err
			}
		case info.Mode()&os.ModeSymlink != 0:
			l, err := os.Readlink(p)
			if err != nil {
				return err
			}
			return os.Symlink(l, target)
		case info.Mode().IsRegular():
			in, err := os.Open(p)
			if err != nil {
				return err
			}
			out, err := os.OpenFile(target, os.O_CREATE|os.O_WRONLY|os.O_TRUNC, info.Mode().Perm()|0600)
			if err != nil {
				in.Close()
				return err
			}
			_, err = io.Copy(out, in)
			in.Close()
			out.Close()
			if err != nil {
				return err
			}
			os.Chtimes(target, info.ModTime(), info.ModTime())
		}
		return nil
	})
}

var uuidRe = regexp.MustCompile(`[0-9a-f]{8}-[0-9a-f]{4}-[0-9a-f]{4}-[0-9a-f]{4}-[0-9a-f]{12}`)

// TreeHash is a content hash of a tree; uuid-shaped path components are normalised.
func TreeHash(dir string) string {
	var lines []string
	filepath.Walk(dir, func(p string, info os.FileInfo, err error) error {
		if err != nil {
			return nil
		}
		rel, _ := filepath.Rel(dir, p)
		rel = uuidRe.ReplaceAllString(rel, "UUID")
		if info.IsDir() {
			lines = append(lines, "d "+rel)
		} else if info.Mode().IsRegular() {
			b, _ := os.ReadFile(p)
			s := sha256.Sum256(b)
			lines = append(lines, fmt.Sprintf("f %s %d %s", rel, len(b), hex.EncodeToString(s[:8])))
		} else {
			lines = append(lines, "o "+rel)
		}
		return nil
	})
	sort.Strings(lines)
	s := sha256.Sum256([]byte(strings.Join(lines, "\n")))
	return hex.EncodeToString(s[:8])
}

// DumpTree lists a tree (for violation messages).
func DumpTree(dir string) string {
	var lines []string
	filepath.Walk(dir, func(p string, info os.FileInfo, err error) error {
		if err != nil {
			return nil
		}
		rel, _ := filepath.Rel(dir, p)
		if info.IsDir() {
			lines = append(lines, rel+"/")
		} else {
			lines = append(lines, fmt.Sprintf("%s (%d bytes)", rel, info.Size()))
		}
		return nil
	})
	sort.Strings(lines)
	return strings.Join(lines, "\n")
}
