package crashfs

import (
	"fmt"
	"os"
	"path/filepath"
	"sync"
	"testing"
)

func TestMain(m *testing.M) {
	if root := os.Getenv(ChildEnv); root != "" {
		Mark(0, 0)
		os.MkdirAll(filepath.Join(root, "a/b"), 0755)
		f, _ := os.Create(filepath.Join(root, "a/b/f"))
		f.Write([]byte("hello"))
		f.WriteAt([]byte("X"), 10)
		f.Close()
		Mark(0, 1)
		Mark(1, 0)
		os.Rename(filepath.Join(root, "a/b/f"), filepath.Join(root, "g"))
		var wg sync.WaitGroup
		for i := 0; i < 4; i++ {
			wg.Add(1)
			go func(i int) {
				defer wg.Done()
				os.WriteFile(filepath.Join(root, fmt.Sprintf("t%d", i)), []byte("data"), 0644)
			}(i)
		}
		wg.Wait()
		os.RemoveAll(filepath.Join(root, "a"))
		Mark(1, 1)
		os.Exit(0)
	}
	os.Exit(m.Run())
}

func TestTrace(t *testing.T) {
	root := t.TempDir()
	snap := t.TempDir()
	tr, err := Run(Config{Root: root, SnapDir: snap, Env: []string{ChildEnv + "=" + root}})
	if err != nil {
		t.Fatal(err)
	}
	t.Logf("stops=%d snaps=%d exit=%d", tr.Stops, len(tr.Snapshots), tr.ExitCode)
	for _, s := range tr.Snapshots {
		t.Logf("%d done=%d in=%d %s  hash=%s", s.Index, s.OpsDone, s.InOp, s.Syscall, TreeHash(s.Dir))
	}
	if tr.ExitCode != 0 || len(tr.Snapshots) < 15 {
		t.Fatalf("unexpected: %+v\n%s", tr.ExitCode, tr.Output)
	}
}
