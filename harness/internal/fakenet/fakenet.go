// Package fakenet lets a check run thousands of short-lived HTTP fakes per process
// without consuming TCP ports (16 parallel shards exhaust the ephemeral port range
// through TIME_WAIT sockets otherwise).
//
// An Endpoint is a unix-domain stream socket listener registered under a made-up
// "host:port" address ("h17.verif:80"). Dial resolves such addresses to their
// socket; an address of the ".verif" domain with no live listener fails the way a
// closed TCP port does (ECONNREFUSED wrapped in a *net.OpError with Op "dial").
// InstallDefault points http.DefaultTransport's dialer at Dial, so code that can
// only be given an address string ("http://<addr>/...", no transport option) reaches
// the fakes; everything above the socket (net/http client and server, keep-alive,
// chunking, connection resets on close with unread data) is the real thing.
package fakenet

import (
	"context"
	"fmt"
	"net"
	"net/http"
	"os"
	"path/filepath"
	"strings"
	"sync"
	"sync/atomic"
	"syscall"
)

var (
	mu       sync.Mutex
	registry = map[string]string{} // addr -> socket path
	counter  atomic.Int64
	dirOnce  sync.Once
	dir      string
	dirErr   error
	instOnce sync.Once
)

// Endpoint is a listening fake host.
type Endpoint struct {
	Addr     string // "hN.verif:80"
	Listener net.Listener
	path     string
}

func sockDir() (string, error) {
	dirOnce.Do(func() {
		dir, dirErr = os.MkdirTemp("", "fn")
	})
	return dir, dirErr
}

// NewAddr reserves a fresh address without a listener (dialing it is refused).
func NewAddr() string {
	return fmt.Sprintf("h%d.verif:80", counter.Add(1))
}

// Listen opens a listener under a fresh address.
func Listen() (*Endpoint, error) {
	return ListenAt(NewAddr())
}

// ListenAt opens a listener under addr (obtained from NewAddr, possibly listened on before).
func ListenAt(addr string) (*Endpoint, error) {
	d, err := sockDir()
	if err != nil {
		return nil, err
	}
	path := filepath.Join(d, fmt.Sprintf("s%d", counter.Add(1)))
	l, err := net.Listen("unix", path)
	if err != nil {
		return nil, err
	}
	mu.Lock()
	registry[addr] = path
	mu.Unlock()
	return &Endpoint{Addr: addr, Listener: l, path: path}, nil
}

// Close stops listening; later dials are refused.
func (e *Endpoint) Close() {
	mu.Lock()
	if registry[e.Addr] == e.path {
		delete(registry, e.Addr)
	}
	mu.Unlock()
	e.Listener.Close()
	os.Remove(e.path)
}

// IsFake reports whether addr belongs to the fake domain.
func IsFake(addr string) bool {
	host, _, err := net.SplitHostPort(addr)
	if err != nil {
		host = addr
	}
	return strings.HasSuffix(host, ".verif")
}

// Dial is a DialContext function.
func Dial(ctx context.Context, network, addr string) (net.Conn, error) {
	if !IsFake(addr) {
		var d net.Dialer
		return d.DialContext(ctx, network, addr)
	}
	mu.Lock()
	path, ok := registry[addr]
	mu.Unlock()
	if !ok {
		return nil, &net.OpError{Op: "dial", Net: network, Addr: fakeAddr(addr), Err: os.NewSyscallError("connect", syscall.ECONNREFUSED)}
	}
	var d net.Dialer
	c, err := d.DialContext(ctx, "unix", path)
	if err != nil {
		return nil, err
	}
	return c, nil
}

type fakeAddr string

func (a fakeAddr) Network() string { return "tcp" }
func (a fakeAddr) String() string  { return string(a) }

// InstallDefault makes http.DefaultTransport dial through Dial (idempotent).
func InstallDefault() {
	instOnce.Do(func() {
		if tr, ok := http.DefaultTransport.(*http.Transport); ok {
			tr.DialContext = Dial
		}
	})
}

// NewTransport returns a private transport dialing through Dial.
func NewTransport() *http.Transport {
	return &http.Transport{DialContext: Dial}
}

// Server is an HTTP server on an Endpoint that can be shut down completely.
type Server struct {
	*Endpoint
	srv    *http.Server
	mu     sync.Mutex
	closed bool
	wg     sync.WaitGroup
}

// Serve starts an HTTP server for h on a fresh address.
func Serve(h http.Handler) (*Server, error) {
	return ServeAt(NewAddr(), h)
}

// ServeAt starts an HTTP server for h under addr.
func ServeAt(addr string, h http.Handler) (*Server, error) {
	e, err := ListenAt(addr)
	if err != nil {
		return nil, err
	}
	s := &Server{Endpoint: e}
	s.srv = &http.Server{Handler: http.HandlerFunc(func(w http.ResponseWriter, r *http.Request) {
		s.mu.Lock()
		if s.closed {
			s.mu.Unlock()
			return
		}
		s.wg.Add(1)
		s.mu.Unlock()
		defer s.wg.Done()
		h.ServeHTTP(w, r)
	})}
	s.wg.Add(1)
	go func() {
		defer s.wg.Done()
		s.srv.Serve(e.Listener)
	}()
	return s, nil
}

// URL returns "http://<addr>".
func (s *Server) URL() string { return "http://" + s.Addr }

// Close closes the listener and every non-hijacked connection and waits for the
// running handlers to return.
func (s *Server) Close() {
	s.mu.Lock()
	s.closed = true
	s.mu.Unlock()
	s.srv.Close()
	s.Endpoint.Close()
	s.wg.Wait()
}
