//go:build verif

// Package schedh is the harness around kraken's scheduler used by C17 and C18
// (DESIGN.md E3d): an agent scheduler with a harness-driven event loop, a mock
// clock, a fake announce client, a fake metainfo client, a real CADownloadStore
// and fake peers attached directly to dispatchers.
package schedh

import (
	"bytes"
	"fmt"
	"io"
	"net"
	"os"
	"path/filepath"
	"runtime"
	"strings"
	"sync"
	"sync/atomic"
	"time"

	"github.com/andres-erbsen/clock"
	"github.com/uber-go/tally"
	"github.com/willf/bitset"
	"go.uber.org/zap"

	"github.com/uber/kraken/core"
	"github.com/uber/kraken/gen/go/proto/p2p"
	"github.com/uber/kraken/lib/store"
	"github.com/uber/kraken/lib/torrent/networkevent"
	"github.com/uber/kraken/lib/torrent/scheduler"
	"github.com/uber/kraken/lib/torrent/scheduler/conn"
	"github.com/uber/kraken/lib/torrent/scheduler/connstate"
	"github.com/uber/kraken/lib/torrent/scheduler/dispatch"
	"github.com/uber/kraken/lib/torrent/storage"
	"github.com/uber/kraken/lib/torrent/storage/agentstorage"
	"github.com/uber/kraken/lib/torrent/storage/piecereader"
	"github.com/uber/kraken/tracker/metainfoclient"
	"github.com/uber/kraken/utils/log"
)

// Blob is a blob known to the fake metainfo client.
type Blob struct {
	Data     []byte
	Digest   core.Digest
	MetaInfo *core.MetaInfo
}

// NumPieces returns the number of pieces of b.
func (b *Blob) NumPieces() int { return b.MetaInfo.NumPieces() }

// Piece returns the bytes of piece i.
func (b *Blob) Piece(i int) []byte {
	pl := int(b.MetaInfo.PieceLength())
	lo := i * pl
	hi := lo + pl
	if hi > len(b.Data) {
		hi = len(b.Data)
	}
	return b.Data[lo:hi]
}

type fakeMetaInfoClient struct {
	byDigest map[core.Digest]*core.MetaInfo
}

func (f *fakeMetaInfoClient) Download(namespace string, d core.Digest) (*core.MetaInfo, error) {
	if mi, ok := f.byDigest[d]; ok {
		return mi, nil
	}
	return nil, metainfoclient.ErrNotFound
}

// announceClient returns the scripted number of (unreachable) peers, none by default; it
// counts calls so the harness can wait for the resulting announce event.
type announceClient struct {
	mu     sync.Mutex
	calls  int
	byHash map[core.InfoHash]int
	script []int // peers handed out per call, cyclically
	seq    int
}

func (a *announceClient) CheckReadiness() error { return nil }
func (a *announceClient) Announce(d core.Digest, h core.InfoHash, complete bool, version int) ([]*core.PeerInfo, time.Duration, error) {
	a.mu.Lock()
	defer a.mu.Unlock()
	n := 0
	if len(a.script) > 0 {
		n = a.script[a.calls%len(a.script)]
	}
	a.calls++
	if a.byHash == nil {
		a.byHash = map[core.InfoHash]int{}
	}
	a.byHash[h]++
	var peers []*core.PeerInfo
	for i := 0; i < n; i++ {
		a.seq++
		id, _ := core.PeerIDFactory(core.AddrHashPeerIDFactory).GeneratePeerID(fmt.Sprintf("10.0.2.%d", a.seq%250+1), a.seq)
		// nobody listens on port 1: the outgoing handshake fails at once
		peers = append(peers, core.NewPeerInfo(id, "127.0.0.1", 1, false, false))
	}
	return peers, time.Hour, nil
}

// FakePeer implements dispatch.Messages.
type FakePeer struct {
	ID   core.PeerID
	recv chan *conn.Message

	mu      sync.Mutex
	closed  bool
	Sent    []*conn.Message // messages the dispatcher sent to this peer
	readers int             // payloads received and consumed
}

// Send records a message from the dispatcher. Piece payloads are read completely
// and closed, as conn.Conn does when it writes a payload to the wire.
func (p *FakePeer) Send(msg *conn.Message) error {
	p.mu.Lock()
	if p.closed {
		p.mu.Unlock()
		return fmt.Errorf("closed")
	}
	p.Sent = append(p.Sent, msg)
	p.mu.Unlock()
	if msg.Message.Type == p2p.Message_PIECE_PAYLOAD && msg.Payload != nil {
		io.Copy(io.Discard, msg.Payload)
		msg.Payload.Close()
		p.mu.Lock()
		p.readers++
		p.mu.Unlock()
	}
	return nil
}

// Receiver is the channel the dispatcher reads this peer's messages from.
func (p *FakePeer) Receiver() <-chan *conn.Message { return p.recv }

// Close closes the peer's message stream.
func (p *FakePeer) Close() {
	p.mu.Lock()
	defer p.mu.Unlock()
	if !p.closed {
		p.closed = true
		close(p.recv)
	}
}

// Closed reports whether the dispatcher closed the peer.
func (p *FakePeer) Closed() bool {
	p.mu.Lock()
	defer p.mu.Unlock()
	return p.closed
}

// PayloadsServed returns how many piece payloads the dispatcher sent to this peer.
func (p *FakePeer) PayloadsServed() int {
	p.mu.Lock()
	defer p.mu.Unlock()
	return p.readers
}

// deliver pushes a message to the dispatcher; false if the peer is closed.
func (p *FakePeer) deliver(m *conn.Message) (ok bool) {
	p.mu.Lock()
	defer p.mu.Unlock()
	if p.closed {
		return false
	}
	select {
	case p.recv <- m:
		return true
	default:
		return false
	}
}

// barrier delivers a no-op message and waits until the dispatcher's feed loop has
// taken it: the loop handles messages one at a time, so everything delivered
// before the barrier has then been handled completely.
func (p *FakePeer) barrier() bool {
	m := &conn.Message{Message: &p2p.Message{Type: p2p.Message_CANCEL_PIECE, CancelPiece: &p2p.CancelPieceMessage{}}}
	if !p.deliver(m) {
		return false
	}
	return WaitFor(2*time.Second, func() bool { return len(p.recv) == 0 || p.Closed() })
}

// DownloadCall tracks one Scheduler.Download invocation.
type DownloadCall struct {
	Blob     int
	mu       sync.Mutex
	returned bool
	Err      error
	// CacheOK is set when Err == nil: the cache held exactly the blob's bytes right after the return.
	CacheOK  bool
	CacheErr string
	// RemovalsAtStart is the number of removal events for the blob applied before the call started.
	RemovalsAtStart int
	// EventID is the id of the call's new-torrent event once it is pending in the loop (0: the
	// call returned without sending one). RemovalsAtApply is the number of removal events for
	// the blob that had been applied when that event was applied (-1: not applied yet).
	EventID         int
	RemovalsAtApply int
}

// Returned reports whether Download has returned (and its post-check finished).
func (c *DownloadCall) Returned() bool {
	c.mu.Lock()
	defer c.mu.Unlock()
	return c.returned
}

// H is one harnessed agent scheduler.
type H struct {
	Dir      string
	Clock    *clock.Mock
	Blobs    []*Blob
	CADS     *store.CADownloadStore
	Archive  *agentstorage.TorrentArchive
	VH       *scheduler.VerifHarness
	Sched    scheduler.Scheduler
	announce *announceClient

	Calls    []*DownloadCall
	Removals []int // per blob: removal events applied
	peers    map[*dispatch.Dispatcher]*FakePeer
	peerSeq  int

	// real-socket remote peers that connect to the scheduler (Incoming)
	selfID          core.PeerID
	announceApplied map[core.InfoHash]int
	lis             net.Listener
	inMu            sync.Mutex
	inConns         []net.Conn
	Remotes         []*Remote

	stopOnce sync.Once
	stopDone chan struct{}

	// Inconclusive is set when a call started by the harness did not reach the event loop
	// within a minute (machine too busy): the case must be discarded, not judged.
	Inconclusive bool
}

var inconclusive int32

// TakeInconclusive reports (and clears) whether any harness of this process marked its run
// inconclusive since the last call. Cases run one at a time, so a check's run function calls
// it once per case: a violation found in an inconclusive run must be discarded.
func TakeInconclusive() bool { return atomic.SwapInt32(&inconclusive, 0) == 1 }

// Config configures New.
type Config struct {
	Blobs      [][]byte
	PieceLen   int
	SeederTTI  time.Duration
	LeecherTTI time.Duration
	ConnState  connstate.Config
}

func init() {
	log.SetGlobalLogger(zap.NewNop().Sugar())
}

// New builds the harness in a fresh temporary directory.
func New(cfg Config) (*H, error) {
	dir, err := os.MkdirTemp("", "schedh-")
	if err != nil {
		return nil, err
	}
	h := &H{Dir: dir, Clock: clock.NewMock(), announce: &announceClient{}, peers: map[*dispatch.Dispatcher]*FakePeer{}, stopDone: make(chan struct{})}
	h.Clock.Add(24 * time.Hour) // away from the zero time
	mic := &fakeMetaInfoClient{byDigest: map[core.Digest]*core.MetaInfo{}}
	for _, data := range cfg.Blobs {
		d, err := core.NewDigester().FromBytes(data)
		if err != nil {
			return nil, err
		}
		mi, err := core.NewMetaInfo(d, bytes.NewReader(data), int64(cfg.PieceLen))
		if err != nil {
			return nil, err
		}
		mic.byDigest[d] = mi
		h.Blobs = append(h.Blobs, &Blob{Data: data, Digest: d, MetaInfo: mi})
		h.Removals = append(h.Removals, 0)
	}
	h.CADS, err = store.NewCADownloadStore(store.CADownloadStoreConfig{
		DownloadDir:     filepath.Join(dir, "download"),
		CacheDir:        filepath.Join(dir, "cache"),
		DownloadCleanup: store.CleanupConfig{Disabled: true},
		CacheCleanup:    store.CleanupConfig{Disabled: true},
	}, tally.NoopScope)
	if err != nil {
		os.RemoveAll(dir)
		return nil, err
	}
	h.Archive = agentstorage.NewTorrentArchive(tally.NoopScope, h.CADS, mic)
	pctx, err := core.NewPeerContext(core.RandomPeerIDFactory, "zone", "cluster", "127.0.0.1", 1, false)
	if err != nil {
		return nil, err
	}
	sc := scheduler.Config{
		SeederTTI:          cfg.SeederTTI,
		LeecherTTI:         cfg.LeecherTTI,
		PreemptionInterval: time.Hour,
		EmitStatsInterval:  time.Hour,
		ConnTTI:            1000 * time.Hour,
		ConnTTL:            1000 * time.Hour,
		Conn:               conn.ConfigFixture(),
		ConnState:          cfg.ConnState,
		TorrentLog:         log.Config{Disable: true},
		Log:                log.Config{Disable: true},
	}
	h.VH, err = scheduler.NewVerifHarness(sc, h.Archive, pctx, h.announce, h.Clock)
	if err != nil {
		h.CADS.Close()
		os.RemoveAll(dir)
		return nil, err
	}
	h.Sched = h.VH.Scheduler()
	h.selfID = pctx.PeerID
	return h, nil
}

// WaitFor polls cond until it holds or the timeout passes; it returns cond's last value.
// Waiting is only ever used to let goroutines reach their next blocking point; a
// timeout is never by itself a violation.
func WaitFor(timeout time.Duration, cond func() bool) bool {
	deadline := time.Now().Add(timeout)
	for i := 0; ; i++ {
		if cond() {
			return true
		}
		if time.Now().After(deadline) {
			return false
		}
		if i < 50 {
			time.Sleep(50 * time.Microsecond)
		} else {
			time.Sleep(500 * time.Microsecond)
		}
	}
}

// ReadCache returns the cached bytes of blob i.
func (h *H) ReadCache(i int) ([]byte, error) {
	r, err := h.CADS.Cache().GetFileReader(h.Blobs[i].Digest.Hex())
	if err != nil {
		return nil, err
	}
	defer r.Close()
	return io.ReadAll(r)
}

// SeedCache writes blob i straight into the agent's cache (a previously completed download).
func (h *H) SeedCache(i int) error {
	b := h.Blobs[i]
	t, err := h.Archive.CreateTorrent("ns", b.Digest)
	if err != nil {
		return err
	}
	for p := 0; p < b.NumPieces(); p++ {
		if err := t.WritePiece(piecereader.NewBuffer(b.Piece(p)), p); err != nil {
			return err
		}
	}
	if !t.Complete() {
		return fmt.Errorf("seed: not complete")
	}
	return nil
}

// StartDownload starts Scheduler.Download(blob i) on its own goroutine and waits
// until it is either pending in the loop or has returned.
func (h *H) StartDownload(i int) *DownloadCall {
	c := &DownloadCall{Blob: i, RemovalsAtStart: h.Removals[i], RemovalsAtApply: -1}
	seen := map[int]bool{}
	for _, e := range h.VH.Pending() {
		seen[e.ID] = true
	}
	h.Calls = append(h.Calls, c)
	go func() {
		err := h.Sched.Download("ns", h.Blobs[i].Digest)
		ok, cerr := false, ""
		if err == nil {
			got, rerr := h.ReadCache(i)
			if rerr != nil {
				cerr = rerr.Error()
			} else if !bytes.Equal(got, h.Blobs[i].Data) {
				cerr = fmt.Sprintf("cache holds %d bytes that differ from the blob", len(got))
			} else {
				ok = true
			}
		}
		c.mu.Lock()
		c.Err, c.CacheOK, c.CacheErr, c.returned = err, ok, cerr, true
		c.mu.Unlock()
	}()
	// The call opens the torrent on disk before it reaches the loop. The harness moves on only
	// when it has (or has returned): otherwise a later step would race with that disk access,
	// an interleaving outside the serialized events these harnesses own. A machine too busy to
	// get there marks the run inconclusive.
	ownEvent := func() int {
		for _, e := range h.VH.Pending() {
			if !seen[e.ID] && e.Kind == "newTorrentEvent" && e.InfoHash == h.Blobs[i].MetaInfo.InfoHash() {
				return e.ID
			}
		}
		return 0
	}
	if !WaitFor(60*time.Second, func() bool { return c.Returned() || ownEvent() != 0 || h.VH.Stopped() }) {
		h.Inconclusive = true
		atomic.StoreInt32(&inconclusive, 1)
	}
	c.EventID = ownEvent()
	return c
}

// Peer returns (attaching it if needed) the fake full-bitfield peer of the
// dispatcher currently registered for blob i, or nil if there is none.
func (h *H) Peer(i int) (*dispatch.Dispatcher, *FakePeer) {
	d := h.VH.Dispatcher(h.Blobs[i].MetaInfo.InfoHash())
	if d == nil {
		return nil, nil
	}
	if p, ok := h.peers[d]; ok {
		return d, p
	}
	h.peerSeq++
	id, _ := core.PeerIDFactory(core.AddrHashPeerIDFactory).GeneratePeerID(fmt.Sprintf("10.0.0.%d", h.peerSeq%250+1), h.peerSeq)
	p := &FakePeer{ID: id, recv: make(chan *conn.Message, 256)}
	full := bitset.New(uint(h.Blobs[i].NumPieces())).Complement()
	if err := d.AddPeer(id, false, full, p); err != nil {
		return d, nil
	}
	h.peers[d] = p
	return d, p
}

// Feed delivers up to n correct missing pieces of blob i through the fake peer
// and waits for each to be written. It returns the number of pieces written.
func (h *H) Feed(i int, n int) int {
	d, p := h.Peer(i)
	if d == nil || p == nil {
		return 0
	}
	b := h.Blobs[i]
	written := 0
	wasComplete := d.Complete()
	for piece := 0; piece < b.NumPieces() && written < n; piece++ {
		if d.Stat().Bitfield().Test(uint(piece)) {
			continue
		}
		if !p.deliver(conn.NewPiecePayloadMessage(piece, piecereader.NewBuffer(b.Piece(piece)))) {
			break
		}
		pc := piece
		if !p.barrier() {
			break
		}
		if d.Stat().Bitfield().Test(uint(pc)) {
			written++
		}
	}
	if int(d.Stat().Bitfield().Count()) == b.NumPieces() {
		// the last piece write also commits the file to the cache: wait until that has finished,
		// so that later steps do not race with a piece write that is still in flight
		WaitFor(2*time.Second, func() bool { return d.Complete() })
	}
	if d.Complete() && !wasComplete {
		// the completion notice is sent from its own goroutine: wait until it is pending
		ih := b.MetaInfo.InfoHash()
		WaitFor(2*time.Second, func() bool {
			for _, e := range h.VH.Pending() {
				if e.Kind == "dispatcherCompleteEvent" && e.InfoHash == ih {
					return true
				}
			}
			return false
		})
	}
	return written
}

// RequestPiece makes the fake peer request piece k of blob i from a (complete)
// torrent and waits until the payload has been served, read and closed.
func (h *H) RequestPiece(i, k int) bool {
	d, p := h.Peer(i)
	if d == nil || p == nil {
		return false
	}
	before := p.PayloadsServed()
	if !p.deliver(conn.NewPieceRequestMessage(k, h.Blobs[i].MetaInfo.GetPieceLength(k))) {
		return false
	}
	if !p.barrier() {
		return false
	}
	return p.PayloadsServed() > before
}

// HasPendingComplete reports whether a completion notice for blob i is pending.
func (h *H) HasPendingComplete(i int) bool {
	ih := h.Blobs[i].MetaInfo.InfoHash()
	for _, e := range h.VH.Pending() {
		if e.Kind == "dispatcherCompleteEvent" && e.InfoHash == ih {
			return true
		}
	}
	return false
}

// Settle waits briefly for goroutines started by the last step to reach the loop.
func (h *H) Settle() {
	last := -1
	stable := 0
	WaitFor(200*time.Millisecond, func() bool {
		n := len(h.VH.Pending())
		for _, c := range h.Calls {
			if c.Returned() {
				n += 1000
			}
		}
		if n == last {
			stable++
		} else {
			stable = 0
			last = n
		}
		return stable >= 6
	})
}

// NoteRemoval counts a removal event that is about to be applied (used to skip a
// cache check that a concurrent manual removal makes unjudgeable).
func (h *H) NoteRemoval(e scheduler.VerifPending) {
	if e.Kind == "newTorrentEvent" {
		for _, c := range h.Calls {
			if c.EventID == e.ID {
				c.RemovalsAtApply = h.Removals[c.Blob]
			}
		}
	}
	if e.Kind != "removeTorrentEvent" {
		return
	}
	for i, b := range h.Blobs {
		if b.Digest == e.Digest {
			h.Removals[i]++
		}
	}
}

// ApplyID applies a pending event and lets its consequences settle.
// SetAnnounceScript makes the fake tracker hand out script[k mod len] unreachable peers on
// its k-th call.
func (h *H) SetAnnounceScript(script []int) {
	h.announce.mu.Lock()
	h.announce.script = script
	h.announce.mu.Unlock()
}

// AnnouncesInFlight returns how many announces of the torrent have been made whose
// result (or error) event has not been applied yet.
func (h *H) AnnouncesInFlight(ih core.InfoHash) int {
	h.announce.mu.Lock()
	defer h.announce.mu.Unlock()
	return h.announce.byHash[ih] - h.announceApplied[ih]
}

// AnnounceGoroutines counts goroutines inside scheduler.announce (an announce that has
// been started and has not delivered its event yet).
func AnnounceGoroutines() int {
	buf := make([]byte, 4<<20)
	n := runtime.Stack(buf, true)
	count := 0
	for _, g := range strings.Split(string(buf[:n]), "\n\n") {
		if strings.Contains(g, "scheduler.(*scheduler).announce(") {
			count++
		}
	}
	return count
}

func (h *H) ApplyID(e scheduler.VerifPending) {
	if e.Kind == "announceResultEvent" || e.Kind == "announceErrEvent" {
		h.announce.mu.Lock()
		if h.announceApplied == nil {
			h.announceApplied = map[core.InfoHash]int{}
		}
		h.announceApplied[e.InfoHash]++
		h.announce.mu.Unlock()
	}
	h.NoteRemoval(e)
	if e.Kind == "incomingHandshakeEvent" {
		// The scheduler answers the handshake on its own goroutine and then sends the
		// outcome as an event; wait for that event (or for the remote to see a refusal).
		evs, done := h.countKinds("incomingConnEvent", "failedIncomingHandshakeEvent"), h.remotesDone()
		h.VH.Apply(e.ID)
		WaitFor(2*time.Second, func() bool {
			return h.countKinds("incomingConnEvent", "failedIncomingHandshakeEvent") > evs || h.remotesDone() > done || h.VH.Stopped()
		})
		h.Settle()
		return
	}
	h.VH.Apply(e.ID)
	h.Settle()
}

// Remote is a remote peer that opened (or is opening) a connection to the scheduler.
type Remote struct {
	Blob int
	mu   sync.Mutex
	done bool
	err  error
	c    *conn.Conn
}

// Done reports whether the remote's side of the handshake has finished, and how.
func (r *Remote) Done() (bool, error) {
	r.mu.Lock()
	defer r.mu.Unlock()
	return r.done, r.err
}

type noConnEvents struct{}

func (noConnEvents) ConnClosed(*conn.Conn) {}

// Incoming lets a fresh remote peer open a real TCP connection to the scheduler for
// blob i, announcing a full bitfield if full (an empty one otherwise), and waits until
// the scheduler's side has read the handshake and its incomingHandshakeEvent is
// pending (or the attempt has already ended). The remote's side completes only after
// the harness applies that event.
func (h *H) Incoming(i int, full bool) *Remote {
	if h.lis == nil {
		l, err := net.Listen("tcp", "127.0.0.1:0")
		if err != nil {
			return nil
		}
		h.lis = l
		go func() {
			for {
				nc, err := l.Accept()
				if err != nil {
					return
				}
				h.inMu.Lock()
				h.inConns = append(h.inConns, nc)
				h.inMu.Unlock()
				go h.VH.Accept(nc)
			}
		}()
	}
	h.peerSeq++
	id, _ := core.PeerIDFactory(core.AddrHashPeerIDFactory).GeneratePeerID(fmt.Sprintf("10.0.1.%d", h.peerSeq%250+1), h.peerSeq)
	cfg := conn.ConfigFixture()
	cfg.HandshakeTimeout = 20 * time.Second
	hs, err := conn.NewHandshaker(cfg, tally.NoopScope, clock.New(), networkevent.NewTestProducer(), id, noConnEvents{}, zap.NewNop().Sugar())
	if err != nil {
		return nil
	}
	b := h.Blobs[i]
	bits := bitset.New(uint(b.NumPieces()))
	if full {
		bits = bits.Complement()
	}
	info := storage.NewTorrentInfo(b.MetaInfo, bits)
	r := &Remote{Blob: i}
	h.Remotes = append(h.Remotes, r)
	before := len(h.VH.Pending())
	go func() {
		res, err := hs.Initialize(h.selfID, false, h.lis.Addr().String(), info, nil, "ns")
		r.mu.Lock()
		r.done, r.err = true, err
		if err == nil {
			r.c = res.Conn
		}
		r.mu.Unlock()
	}()
	WaitFor(2*time.Second, func() bool {
		if d, _ := r.Done(); d {
			return true
		}
		return len(h.VH.Pending()) > before || h.VH.Stopped()
	})
	return r
}

func (h *H) countKinds(kinds ...string) int {
	n := 0
	for _, e := range h.VH.Pending() {
		for _, k := range kinds {
			if e.Kind == k {
				n++
			}
		}
	}
	return n
}

func (h *H) remotesDone() int {
	n := 0
	for _, r := range h.Remotes {
		if d, _ := r.Done(); d {
			n++
		}
	}
	return n
}

// StartRemove calls Scheduler.RemoveTorrent(blob i) on its own goroutine and waits until it is pending.
func (h *H) StartRemove(i int) {
	before := len(h.VH.Pending())
	returned := make(chan struct{})
	go func() {
		h.Sched.RemoveTorrent(h.Blobs[i].Digest)
		close(returned)
	}()
	if !WaitFor(60*time.Second, func() bool {
		select {
		case <-returned:
			return true
		default:
		}
		return len(h.VH.Pending()) > before || h.VH.Stopped()
	}) {
		h.Inconclusive = true
		atomic.StoreInt32(&inconclusive, 1)
	}
}

// StartStop calls Scheduler.Stop on its own goroutine and waits until the shutdown event is pending.
func (h *H) StartStop() {
	h.stopOnce.Do(func() {
		before := len(h.VH.Pending())
		go func() {
			h.Sched.Stop()
			close(h.stopDone)
		}()
		if !WaitFor(60*time.Second, func() bool { return len(h.VH.Pending()) > before || h.VH.Stopped() }) {
			h.Inconclusive = true
			atomic.StoreInt32(&inconclusive, 1)
		}
	})
}

// DrainAndStop applies every pending event in FIFO order until nothing is pending,
// stops the scheduler, and waits (generously) for every Download call to return.
// It returns the calls that did not return.
func (h *H) DrainAndStop(grace time.Duration) []*DownloadCall {
	for round := 0; round < 10000; round++ {
		p := h.VH.Pending()
		if len(p) == 0 {
			h.Settle()
			p = h.VH.Pending()
			if len(p) == 0 {
				break
			}
		}
		h.NoteRemoval(p[0])
		h.VH.Apply(p[0].ID)
	}
	h.StartStop()
	for round := 0; round < 10000 && !h.VH.Stopped(); round++ {
		p := h.VH.Pending()
		if len(p) == 0 {
			h.Settle()
			continue
		}
		h.VH.Apply(p[0].ID)
	}
	// Structural hang criterion: the loop is stopped and nothing is pending, so no
	// one can send to a waiting caller any more. A call is definitely stuck when its
	// goroutine is parked in doDownload's channel receive; that is read off the
	// goroutine dump, so a failing case does not have to sit out the whole grace period.
	polls := 0
	WaitFor(grace, func() bool {
		unreturned := 0
		for _, c := range h.Calls {
			if !c.Returned() {
				unreturned++
			}
		}
		if unreturned == 0 {
			return true
		}
		polls++
		if polls%40 == 0 && parkedDownloads() >= unreturned {
			return true
		}
		return false
	})
	var stuck []*DownloadCall
	for _, c := range h.Calls {
		if !c.Returned() {
			stuck = append(stuck, c)
		}
	}
	return stuck
}

// parkedDownloads counts goroutines blocked in scheduler.doDownload's channel receive.
func parkedDownloads() int {
	buf := make([]byte, 4<<20)
	n := runtime.Stack(buf, true)
	count := 0
	for _, g := range strings.Split(string(buf[:n]), "\n\n") {
		if strings.Contains(g, "[chan receive") && strings.Contains(g, "scheduler.(*scheduler).doDownload") {
			count++
		}
	}
	return count
}

// Close releases everything. The scheduler must have been stopped (DrainAndStop).
func (h *H) Close() {
	for _, p := range h.peers {
		p.Close()
	}
	if h.lis != nil {
		h.lis.Close()
	}
	h.inMu.Lock()
	for _, nc := range h.inConns {
		nc.Close()
	}
	h.inMu.Unlock()
	for _, r := range h.Remotes {
		r.mu.Lock()
		if r.c != nil {
			r.c.Close()
		}
		r.mu.Unlock()
	}
	h.CADS.Close()
	os.RemoveAll(h.Dir)
}
