// Package pbt is the shared runner of the /verif property checks.
//
// Every property check is a set of parts; each part is a pair (Gen, Run):
//
//	Gen: *rapid.T -> Case      draws a plain JSON-serialisable case
//	Run: Case -> Verdict       executes the case against kraken and an explicit oracle
//
// Run never touches rapid, so a (shrunk) failing case can be written to a replay
// file and re-executed directly (VERIF_REPLAY=<file>), bypassing the library.
//
// The process protocol (used by /verif/check):
//
//	VERIF_ROOT    /verif (default: two levels above the package dir)
//	VERIF_OUT     path of the result JSON this process writes
//	VERIF_SEED    integer seed (0 is remapped)
//	VERIF_SHARD   shard index (mixed into the seed)
//	VERIF_CHECKS  total number of generated cases for this process (split by part weight)
//	VERIF_REPLAY  run only this replay file
//	VERIF_PART    restrict to one part (optional)
//	VERIF_MAX_S   soft wall-clock budget: cases after it are skipped (reported, never a violation)
package pbt

import (
	"encoding/json"
	"flag"
	"fmt"
	"hash/fnv"
	"os"
	"path/filepath"
	"runtime/debug"
	"sort"
	"strconv"
	"strings"
	"sync"
	"testing"
	"time"

	"pgregory.net/rapid"
)

// Verdict is what Run reports about one case.
type Verdict struct {
	// Violation is empty when the property held on this case. Otherwise its first
	// line is a stable signature of what failed (used to match known findings).
	Violation string
	// NonTrivial says whether the case reached the behaviour the property is about,
	// by the rule the check states in Spec.Rule.
	NonTrivial bool
	// Classes are labels for the distribution report.
	Classes []string
	// Discard marks a case that could not be judged (counted, never a violation).
	Discard bool
	// Evals, when > 0, is the number of oracle evaluations this case performed
	// (e.g. crash states recovered, shards enumerated). Default 1.
	Evals int
	// NonTrivialKeys, when set, are identities of the distinct non-trivial
	// evaluations inside this case (e.g. tree hashes of mid-operation snapshots);
	// they are counted instead of the case hash.
	NonTrivialKeys []string
}

// OK is a passing verdict helper.
func OK(nontrivial bool, classes ...string) Verdict {
	return Verdict{NonTrivial: nontrivial, Classes: classes}
}

// Fail is a failing verdict helper.
func Fail(format string, args ...interface{}) Verdict {
	return Verdict{Violation: fmt.Sprintf(format, args...), NonTrivial: true}
}

// Part is one (Gen, Run) pair of a property check.
type Part struct {
	Name   string
	Weight int
	gen    func(*rapid.T) interface{}
	run    func(interface{}) Verdict
	decode func([]byte) (interface{}, error)
	// Known reports whether a failing case belongs to the input class of the named
	// known finding (see /verif/known_findings.json, field "class").
	Known map[string]func(c interface{}, v Verdict) bool
}

// NewPart builds a part from typed Gen and Run functions.
func NewPart[C any](name string, weight int, gen func(*rapid.T) C, run func(C) Verdict) Part {
	return Part{
		Name:   name,
		Weight: weight,
		gen:    func(t *rapid.T) interface{} { return gen(t) },
		run:    func(c interface{}) Verdict { return run(c.(C)) },
		decode: func(b []byte) (interface{}, error) {
			var c C
			if err := json.Unmarshal(b, &c); err != nil {
				return nil, err
			}
			return c, nil
		},
	}
}

// WithKnown attaches a known-finding class predicate to a part.
func WithKnown[C any](p Part, class string, pred func(c C, v Verdict) bool) Part {
	if p.Known == nil {
		p.Known = map[string]func(interface{}, Verdict) bool{}
	}
	p.Known[class] = func(c interface{}, v Verdict) bool { return pred(c.(C), v) }
	return p
}

// Spec describes a property check.
type Spec struct {
	ID          string
	Level       string // "exploration" (default) or "fault_enumeration"
	Rule        string
	Assumptions []string
	Parts       []Part
}

// KnownFinding is one entry of /verif/known_findings.json.
type KnownFinding struct {
	Property    string `json:"property"`
	ID          string `json:"id"`
	Status      string `json:"status"` // "open" or "fixed"
	Part        string `json:"part,omitempty"`
	Class       string `json:"class,omitempty"`  // predicate name implemented in the check
	Replay      string `json:"replay,omitempty"` // path relative to /verif
	Commit      string `json:"commit,omitempty"`
	Description string `json:"description"`
}

type partStats struct {
	Evaluations int            `json:"evaluations"`
	Cases       int            `json:"cases"`
	NonTrivial  int            `json:"nontrivial"`
	Discarded   int            `json:"discarded"`
	Skipped     int            `json:"skipped_over_budget"`
	Excluded    int            `json:"excluded_known"`
	Requested   int            `json:"requested"`
	Classes     map[string]int `json:"classes"`
	Hashes      []string       `json:"nontrivial_hashes"`
	HashCapped  bool           `json:"hash_capped,omitempty"`
	Samples     []interface{}  `json:"samples"`
	hashSet     map[string]struct{}
}

// ViolationRec records a violation found by this process.
type ViolationRec struct {
	Part    string      `json:"part"`
	Message string      `json:"message"`
	Replay  string      `json:"replay"`
	Case    interface{} `json:"case,omitempty"`
	Source  string      `json:"source"` // "generated" or "replay"
}

// Result is the per-process result file.
type Result struct {
	Property     string                `json:"property"`
	Level        string                `json:"level"`
	Rule         string                `json:"rule"`
	Assumptions  []string              `json:"assumptions"`
	Seed         int64                 `json:"seed"`
	Shard        int                   `json:"shard"`
	Parts        map[string]*partStats `json:"parts"`
	Violations   []ViolationRec        `json:"violations"`
	KnownLines   []string              `json:"known_lines"`
	ReplaysRun   int                   `json:"replays_run"`
	ReplaysStale int                   `json:"replays_undecodable"`
	WallS        float64               `json:"wall_s"`
	Done         bool                  `json:"done"`
}

const maxHashes = 300000
const maxSamples = 4

type replayFile struct {
	Property string          `json:"property"`
	Part     string          `json:"part"`
	Seed     int64           `json:"seed"`
	Message  string          `json:"message"`
	Case     json.RawMessage `json:"case"`
}

func envInt(name string, def int64) int64 {
	if s := os.Getenv(name); s != "" {
		if v, err := strconv.ParseInt(s, 10, 64); err == nil {
			return v
		}
	}
	return def
}

// Root returns /verif.
func Root() string {
	if r := os.Getenv("VERIF_ROOT"); r != "" {
		return r
	}
	return "/verif"
}

func hashOf(b []byte) string {
	h := fnv.New64a()
	h.Write(b)
	return strconv.FormatUint(h.Sum64(), 16)
}

func mixSeed(seed int64, id string, shard int, part string) uint64 {
	h := fnv.New64a()
	fmt.Fprintf(h, "%d|%s|%d|%s", seed, id, shard, part)
	v := h.Sum64()
	if v == 0 {
		v = 1
	}
	return v
}

// safeRun executes run and converts a panic into a violation verdict.
func safeRun(run func(interface{}) Verdict, c interface{}) (v Verdict) {
	defer func() {
		if r := recover(); r != nil {
			st := string(debug.Stack())
			v = Verdict{Violation: fmt.Sprintf("panic: %v\n%s", r, st), NonTrivial: true}
		}
	}()
	return run(c)
}

func firstLine(s string) string {
	if i := strings.IndexByte(s, '\n'); i >= 0 {
		return s[:i]
	}
	return s
}

func loadKnown(id string) []KnownFinding {
	b, err := os.ReadFile(filepath.Join(Root(), "known_findings.json"))
	if err != nil {
		return nil
	}
	var all struct {
		Findings []KnownFinding `json:"findings"`
	}
	if err := json.Unmarshal(b, &all); err != nil {
		fmt.Fprintf(os.Stderr, "pbt: known_findings.json unreadable: %v\n", err)
		return nil
	}
	var out []KnownFinding
	for _, k := range all.Findings {
		if k.Property == id {
			out = append(out, k)
		}
	}
	return out
}

// Main runs the check. It is called from the single Test function of a property package.
func Main(t *testing.T, spec Spec) {
	start := time.Now()
	if spec.Level == "" {
		spec.Level = "exploration"
	}
	seed := envInt("VERIF_SEED", 1)
	if seed == 0 {
		seed = 0x5eed
	}
	shard := int(envInt("VERIF_SHARD", 0))
	total := int(envInt("VERIF_CHECKS", 100))
	maxS := envInt("VERIF_MAX_S", 0)
	onlyPart := os.Getenv("VERIF_PART")
	out := os.Getenv("VERIF_OUT")
	replayPath := os.Getenv("VERIF_REPLAY")

	res := &Result{Property: spec.ID, Level: spec.Level, Rule: spec.Rule, Assumptions: spec.Assumptions,
		Seed: seed, Shard: shard, Parts: map[string]*partStats{}}
	var mu sync.Mutex
	write := func() {
		mu.Lock()
		defer mu.Unlock()
		res.WallS = time.Since(start).Seconds()
		for _, ps := range res.Parts {
			ps.Hashes = ps.Hashes[:0]
			for h := range ps.hashSet {
				ps.Hashes = append(ps.Hashes, h)
			}
			sort.Strings(ps.Hashes)
		}
		if out == "" {
			return
		}
		b, _ := json.Marshal(res)
		tmp := out + ".tmp"
		if err := os.WriteFile(tmp, b, 0644); err == nil {
			os.Rename(tmp, out)
		}
	}
	defer write()

	known := loadKnown(spec.ID)
	partByName := map[string]*Part{}
	for i := range spec.Parts {
		partByName[spec.Parts[i].Name] = &spec.Parts[i]
	}
	// matchKnown returns the open known finding (if any) whose class predicate accepts this failing case.
	matchKnown := func(p *Part, c interface{}, v Verdict) *KnownFinding {
		for i := range known {
			k := &known[i]
			if k.Status != "open" || (k.Part != "" && k.Part != p.Name) {
				continue
			}
			pred := p.Known[k.Class]
			if pred != nil && pred(c, v) {
				return k
			}
		}
		return nil
	}

	runReplay := func(path string, explicit bool) {
		b, err := os.ReadFile(path)
		if err != nil {
			t.Fatalf("replay %s: %v", path, err)
		}
		var rf replayFile
		if err := json.Unmarshal(b, &rf); err != nil || rf.Part == "" {
			res.ReplaysStale++
			fmt.Printf("pbt: replay %s not decodable, skipped\n", path)
			return
		}
		p := partByName[rf.Part]
		if p == nil {
			res.ReplaysStale++
			fmt.Printf("pbt: replay %s names unknown part %q, skipped\n", path, rf.Part)
			return
		}
		c, err := p.decode(rf.Case)
		if err != nil {
			res.ReplaysStale++
			fmt.Printf("pbt: replay %s case does not decode (%v), skipped\n", path, err)
			return
		}
		res.ReplaysRun++
		v := safeRun(p.run, c)
		if explicit {
			fmt.Printf("pbt: replay %s part=%s violation=%q\n", path, rf.Part, firstLine(v.Violation))
		}
		if v.Violation == "" {
			return
		}
		if k := matchKnown(p, c, v); k != nil {
			line := fmt.Sprintf("KNOWN-FINDING: property=%s %s: %s", spec.ID, k.ID, k.Description)
			res.KnownLines = append(res.KnownLines, line)
			return
		}
		res.Violations = append(res.Violations, ViolationRec{Part: rf.Part, Message: v.Violation, Replay: path, Source: "replay"})
	}

	if replayPath != "" {
		runReplay(replayPath, true)
		res.Done = true
		if len(res.Violations) > 0 {
			t.Errorf("replay violates %s: %s", spec.ID, res.Violations[0].Message)
		}
		return
	}

	// Regression tier: every saved case is run first.
	files, _ := filepath.Glob(filepath.Join(Root(), "replays", spec.ID, "*.json"))
	sort.Strings(files)
	if shard == 0 {
		for _, f := range files {
			runReplay(f, false)
		}
	}
	// Open known findings whose replay still fails were reported above; open
	// findings without a failing replay print nothing.
	if len(res.Violations) > 0 {
		t.Errorf("saved replay violates %s: %s", spec.ID, firstLine(res.Violations[0].Message))
		return
	}

	flag.Set("rapid.nofailfile", "true")
	weightSum := 0
	for _, p := range spec.Parts {
		if onlyPart != "" && p.Name != onlyPart {
			continue
		}
		weightSum += p.Weight
	}
	for i := range spec.Parts {
		p := &spec.Parts[i]
		if onlyPart != "" && p.Name != onlyPart {
			continue
		}
		n := total * p.Weight / weightSum
		if n < 1 {
			n = 1
		}
		ps := &partStats{Classes: map[string]int{}, hashSet: map[string]struct{}{}, Requested: n}
		res.Parts[p.Name] = ps
		flag.Set("rapid.checks", strconv.Itoa(n))
		flag.Set("rapid.seed", strconv.FormatUint(mixSeed(seed, spec.ID, shard, p.Name), 10))
		failed := false
		var lastFail *ViolationRec
		var lastCase interface{}
		ok := t.Run(p.Name, func(st *testing.T) {
			defer func() {
				// rapid ends a failing check with FailNow (Goexit); record the shrunk case here.
				if lastFail != nil {
					cb, _ := json.Marshal(lastCase)
					dir := filepath.Join(Root(), "replays", spec.ID)
					os.MkdirAll(dir, 0755)
					path := filepath.Join(dir, fmt.Sprintf("new-%s-%s.json", p.Name, hashOf(cb)))
					rb, _ := json.MarshalIndent(replayFile{Property: spec.ID, Part: p.Name, Seed: seed, Message: lastFail.Message, Case: cb}, "", " ")
					os.WriteFile(path, rb, 0644)
					lastFail.Replay = path
					lastFail.Case = lastCase
					mu.Lock()
					res.Violations = append(res.Violations, *lastFail)
					mu.Unlock()
				}
			}()
			rapid.Check(st, func(rt *rapid.T) {
				if !failed && maxS > 0 && time.Since(start) > time.Duration(maxS)*time.Second {
					ps.Skipped++
					return
				}
				c := p.gen(rt)
				v := safeRun(p.run, c)
				if v.Violation != "" {
					if k := matchKnown(p, c, v); k != nil {
						if !failed {
							ps.Excluded++
						}
						return
					}
					failed = true
					lastFail = &ViolationRec{Part: p.Name, Message: v.Violation, Source: "generated"}
					lastCase = c
					rt.Fatalf("VIOLATION %s/%s: %s", spec.ID, p.Name, v.Violation)
				}
				if failed {
					return // shrinking: do not count
				}
				ps.Cases++
				if v.Discard {
					ps.Discarded++
					return
				}
				ev := v.Evals
				if ev <= 0 {
					ev = 1
				}
				ps.Evaluations += ev
				for _, cl := range v.Classes {
					ps.Classes[cl]++
				}
				if v.NonTrivial {
					ps.NonTrivial++
					keys := v.NonTrivialKeys
					if keys == nil {
						cb, _ := json.Marshal(c)
						keys = []string{hashOf(cb)}
					}
					for _, k := range keys {
						if len(ps.hashSet) < maxHashes {
							ps.hashSet[k] = struct{}{}
						} else {
							ps.HashCapped = true
						}
					}
					if len(ps.Samples) < maxSamples {
						ps.Samples = append(ps.Samples, c)
					}
				}
			})
		})
		if !ok {
			return
		}
	}
	res.Done = true
}
