// Package fakes3 is an in-memory implementation of the s3backend.S3 interface
// (HeadObject, Download, Upload, ListObjectsV2Pages) that remembers what was
// uploaded. It is part of the trusted base of the checks that use it, so it
// only implements behaviour that Amazon S3 and aws-sdk-go v1 document:
//
//   - One flat key space per bucket. Listings are in UTF-8 binary key order,
//     filtered by plain string prefix, at most MaxKeys keys per page (S3 may
//     return fewer; see Options.ShortPages), IsTruncated/NextContinuationToken
//     set exactly when keys remain, continuation tokens opaque.
//   - ListObjectsV2Pages follows the SDK paginator: the callback is invoked per
//     page with lastPage = "no next token"; iteration stops when the callback
//     returns false or after the last page. The caller's input is not modified.
//   - Object requests (HEAD/GET/PUT) carry the key in the URL path, and the SDK
//     cleans that path (private/protocol/rest cleanPath: path.Clean, trailing
//     slash kept) unless DisableRestProtocolURICleaning is set, which kraken
//     does not set. So the key "/root/x" addresses the object "root/x". The
//     list prefix travels as a query parameter and is used verbatim.
//   - A missing object is reported as awserr code "NotFound" by HEAD (no body to
//     parse) and "NoSuchKey" by GET, both as 404 request failures.
//   - The download manager writes the object into the io.WriterAt in parts of
//     PartSize bytes, concurrently and therefore in no particular order
//     (Options.PartSize / Options.ReverseParts make that deterministic).
package fakes3

import (
	"encoding/base64"
	"fmt"
	"io"
	"path"
	"sort"
	"strings"
	"sync"

	"github.com/aws/aws-sdk-go/aws"
	"github.com/aws/aws-sdk-go/aws/awserr"
	"github.com/aws/aws-sdk-go/service/s3"
	"github.com/aws/aws-sdk-go/service/s3/s3manager"
)

// Options tune legitimate degrees of freedom of S3 and the SDK managers.
type Options struct {
	// PartSize is the download part size; 0 writes the object with one WriteAt.
	PartSize int
	// ReverseParts writes download parts last-to-first instead of first-to-last.
	ReverseParts bool
	// ShortPages, when non-empty, caps the number of keys of the i-th list
	// response (counted over the lifetime of the fake) at ShortPages[i%len] when
	// that entry is > 0. S3 documents that a response may contain fewer keys
	// than MaxKeys and is then still marked truncated.
	ShortPages []int
}

// Call is one request seen by the fake.
type Call struct {
	Op      string // "head", "get", "put", "list"
	Key     string // normalised object key, or the list prefix
	MaxKeys int64
	Token   string
	Keys    int // list: keys returned
}

// S3 is the fake. The zero value is not usable; call New.
type S3 struct {
	mu      sync.Mutex
	bucket  string
	opts    Options
	objects map[string][]byte
	calls   []Call
	lists   int
}

// New returns an empty fake serving one bucket.
func New(bucket string, opts Options) *S3 {
	return &S3{bucket: bucket, opts: opts, objects: map[string][]byte{}}
}

// ObjectKey is the key an object request for k addresses after the SDK's URI cleaning.
func ObjectKey(k string) string {
	trailing := strings.HasSuffix(k, "/")
	c := strings.TrimPrefix(path.Clean("/"+k), "/")
	if trailing && c != "" && !strings.HasSuffix(c, "/") {
		c += "/"
	}
	return c
}

// Keys returns the stored keys in listing order.
func (f *S3) Keys() []string {
	f.mu.Lock()
	defer f.mu.Unlock()
	return f.sortedKeys("")
}

// Object returns a copy of the stored bytes of a (normalised) key.
func (f *S3) Object(key string) ([]byte, bool) {
	f.mu.Lock()
	defer f.mu.Unlock()
	b, ok := f.objects[key]
	return append([]byte(nil), b...), ok
}

// Calls returns the request log.
func (f *S3) Calls() []Call {
	f.mu.Lock()
	defer f.mu.Unlock()
	return append([]Call(nil), f.calls...)
}

func (f *S3) sortedKeys(prefix string) []string {
	var ks []string
	for k := range f.objects {
		if strings.HasPrefix(k, prefix) {
			ks = append(ks, k)
		}
	}
	sort.Strings(ks)
	return ks
}

func notFound(code string) error {
	return awserr.NewRequestFailure(awserr.New(code, "Not Found", nil), 404, "fakes3")
}

func badRequest(code, msg string) error {
	return awserr.NewRequestFailure(awserr.New(code, msg, nil), 400, "fakes3")
}

func (f *S3) checkBucket(b *string) error {
	if b == nil || *b != f.bucket {
		return notFound(s3.ErrCodeNoSuchBucket)
	}
	return nil
}

// HeadObject implements s3backend.S3.
func (f *S3) HeadObject(input *s3.HeadObjectInput) (*s3.HeadObjectOutput, error) {
	f.mu.Lock()
	defer f.mu.Unlock()
	if err := f.checkBucket(input.Bucket); err != nil {
		return nil, err
	}
	if input.Key == nil {
		return nil, badRequest("InvalidParameter", "missing key")
	}
	key := ObjectKey(*input.Key)
	f.calls = append(f.calls, Call{Op: "head", Key: key})
	b, ok := f.objects[key]
	if !ok {
		return nil, notFound("NotFound")
	}
	return &s3.HeadObjectOutput{ContentLength: aws.Int64(int64(len(b)))}, nil
}

// Download implements s3backend.S3.
func (f *S3) Download(w io.WriterAt, input *s3.GetObjectInput, _ ...func(*s3manager.Downloader)) (int64, error) {
	f.mu.Lock()
	if err := f.checkBucket(input.Bucket); err != nil {
		f.mu.Unlock()
		return 0, err
	}
	if input.Key == nil {
		f.mu.Unlock()
		return 0, badRequest("InvalidParameter", "missing key")
	}
	key := ObjectKey(*input.Key)
	f.calls = append(f.calls, Call{Op: "get", Key: key})
	b, ok := f.objects[key]
	b = append([]byte(nil), b...)
	opts := f.opts
	f.mu.Unlock()
	if !ok {
		return 0, notFound(s3.ErrCodeNoSuchKey)
	}
	part := opts.PartSize
	if part <= 0 || part > len(b) {
		part = len(b)
	}
	type span struct{ off, end int }
	var spans []span
	for off := 0; off < len(b); off += part {
		end := off + part
		if end > len(b) {
			end = len(b)
		}
		spans = append(spans, span{off, end})
	}
	if opts.ReverseParts {
		for i, j := 0, len(spans)-1; i < j; i, j = i+1, j-1 {
			spans[i], spans[j] = spans[j], spans[i]
		}
	}
	var n int64
	for _, s := range spans {
		m, err := w.WriteAt(b[s.off:s.end], int64(s.off))
		n += int64(m)
		if err != nil {
			return n, err
		}
	}
	return n, nil
}

// Upload implements s3backend.S3.
func (f *S3) Upload(input *s3manager.UploadInput, _ ...func(*s3manager.Uploader)) (*s3manager.UploadOutput, error) {
	if input.Key == nil {
		return nil, badRequest("InvalidParameter", "missing key")
	}
	var b []byte
	if input.Body != nil {
		var err error
		if b, err = io.ReadAll(input.Body); err != nil {
			return nil, awserr.New("ReadRequestBody", "read upload body", err)
		}
	}
	f.mu.Lock()
	defer f.mu.Unlock()
	if err := f.checkBucket(input.Bucket); err != nil {
		return nil, err
	}
	key := ObjectKey(*input.Key)
	f.calls = append(f.calls, Call{Op: "put", Key: key})
	f.objects[key] = b
	return &s3manager.UploadOutput{Location: "fakes3://" + f.bucket + "/" + key}, nil
}

const tokenPrefix = "fakes3-"

func encodeToken(lastKey string) string {
	return tokenPrefix + base64.RawURLEncoding.EncodeToString([]byte(lastKey))
}

func decodeToken(tok string) (string, bool) {
	if !strings.HasPrefix(tok, tokenPrefix) {
		return "", false
	}
	b, err := base64.RawURLEncoding.DecodeString(tok[len(tokenPrefix):])
	if err != nil {
		return "", false
	}
	return string(b), true
}

// listOnce answers one ListObjectsV2 request.
func (f *S3) listOnce(input *s3.ListObjectsV2Input, token *string) (*s3.ListObjectsV2Output, error) {
	f.mu.Lock()
	defer f.mu.Unlock()
	if err := f.checkBucket(input.Bucket); err != nil {
		return nil, err
	}
	prefix := aws.StringValue(input.Prefix)
	maxKeys := int64(1000)
	if input.MaxKeys != nil {
		maxKeys = *input.MaxKeys
	}
	if maxKeys < 0 {
		return nil, badRequest("InvalidArgument", "Argument max-keys must be an integer between 0 and 2147483647")
	}
	if maxKeys > 1000 {
		maxKeys = 1000
	}
	after, haveAfter := "", false
	if token != nil {
		k, ok := decodeToken(*token)
		if !ok {
			return nil, badRequest("InvalidArgument", "The continuation token provided is incorrect")
		}
		after, haveAfter = k, true
	}
	limit := maxKeys
	if n := len(f.opts.ShortPages); n > 0 {
		if s := int64(f.opts.ShortPages[f.lists%n]); s > 0 && s < limit {
			limit = s
		}
	}
	f.lists++
	var rest []string
	for _, k := range f.sortedKeys(prefix) {
		if haveAfter && k <= after {
			continue
		}
		rest = append(rest, k)
	}
	page := rest
	if int64(len(page)) > limit {
		page = page[:limit]
	}
	out := &s3.ListObjectsV2Output{
		Name:              aws.String(f.bucket),
		Prefix:            aws.String(prefix),
		MaxKeys:           aws.Int64(maxKeys),
		KeyCount:          aws.Int64(int64(len(page))),
		ContinuationToken: token,
		IsTruncated:       aws.Bool(false),
	}
	for _, k := range page {
		out.Contents = append(out.Contents, &s3.Object{Key: aws.String(k), Size: aws.Int64(int64(len(f.objects[k])))})
	}
	// max-keys=0 is answered with an empty, non-truncated page by S3.
	if maxKeys > 0 && len(page) < len(rest) {
		out.IsTruncated = aws.Bool(true)
		out.NextContinuationToken = aws.String(encodeToken(page[len(page)-1]))
	}
	tok := ""
	if token != nil {
		tok = *token
	}
	f.calls = append(f.calls, Call{Op: "list", Key: prefix, MaxKeys: maxKeys, Token: tok, Keys: len(page)})
	return out, nil
}

// ListObjectsV2Pages implements s3backend.S3 with the SDK paginator's semantics.
func (f *S3) ListObjectsV2Pages(input *s3.ListObjectsV2Input, fn func(*s3.ListObjectsV2Output, bool) bool) error {
	if input == nil {
		return badRequest("InvalidParameter", "missing input")
	}
	token := input.ContinuationToken
	for {
		out, err := f.listOnce(input, token)
		if err != nil {
			return err
		}
		last := out.NextContinuationToken == nil
		if !fn(out, last) || last {
			return nil
		}
		token = out.NextContinuationToken
	}
}

// String is a debugging aid.
func (f *S3) String() string {
	return fmt.Sprintf("fakes3(%s, %d objects)", f.bucket, len(f.Keys()))
}
