// Package memscratch gives checks whose cases open sqlite databases a scratch
// directory on a memory file system. sqlite fsyncs on every statement; on the disk
// behind TMPDIR that dominates the run time (0.4 s per case instead of 0.1 s) and
// durability against power loss is no part of the properties concerned (their
// crash model is a process crash). Falls back to TMPDIR when /dev/shm is not usable.
package memscratch

import (
	"os"
	"path/filepath"
	"strings"
	"sync"
	"time"
)

const shm = "/dev/shm"

var (
	once sync.Once
	base string
)

// Base returns the parent directory for per-case scratch directories of this
// process ("" = use TMPDIR). Pass it as the first argument of os.MkdirTemp.
func Base(prefix string) string {
	once.Do(func() {
		if b := os.Getenv("VERIF_MEMSCRATCH"); b != "" {
			if b != "off" {
				base = b
			}
			return
		}
		if st, err := os.Stat(shm); err != nil || !st.IsDir() {
			return
		}
		// Leftovers of runs that were killed before Cleanup.
		old, _ := filepath.Glob(filepath.Join(shm, "verif-*"))
		for _, o := range old {
			if st, err := os.Stat(o); err == nil && time.Since(st.ModTime()) > 3*time.Hour {
				os.RemoveAll(o)
			}
		}
		if d, err := os.MkdirTemp(shm, "verif-"+prefix+"-"); err == nil {
			base = d
		}
	})
	return base
}

// Cleanup removes the process's scratch parent (call from TestMain after m.Run).
func Cleanup() {
	if base != "" && strings.HasPrefix(base, shm+"/verif-") {
		os.RemoveAll(base)
	}
}
