// C26 — tracker hand-outs never include the announcer and respect priority and limits.

//go:debug randseednop=0

package c26

import (
	"bytes"
	"encoding/json"
	"errors"
	"fmt"
	"hash/fnv"
	"math/rand"
	"net/http"
	"net/http/httptest"
	"sync"
	"testing"
	"time"

	"github.com/andres-erbsen/clock"
	"github.com/uber-go/tally"
	"github.com/uber/kraken/core"
	"github.com/uber/kraken/tracker/announceclient"
	"github.com/uber/kraken/tracker/peerhandoutpolicy"
	"github.com/uber/kraken/tracker/peerstore"
	"github.com/uber/kraken/tracker/trackerserver"
	"pgregory.net/rapid"

	"verif/internal/pbt"
)

// ---------------------------------------------------------------------------
// Part "announce": announce histories against the real tracker HTTP handler.
// ---------------------------------------------------------------------------

const (
	maxAgents  = 18
	maxOrigins = 4
	numBlobs   = 2
)

// Step is one announce request.
type Step struct {
	Peer     int  `json:"peer"`      // agent index
	Blob     int  `json:"blob"`      // blob / torrent index
	Complete bool `json:"complete"`  // completion flag reported by the announcer
	V1       bool `json:"v1"`        // GET /announce (info hash in body) instead of POST /announce/{infohash}
	NameOnly bool `json:"name_only"` // old client: digest field absent, only "name"
	// Before the request is sent: the tracker's clock moves forward by Advance
	// seconds (the peer store TTL is storeTTL), then the peer store's periodic
	// cleanup passes run as selected by Cleanup (bit 0: expired entries, bit 1:
	// expired groups). Both zero = back-to-back announcements (the older cases).
	Advance int `json:"advance,omitempty"`
	Cleanup int `json:"cleanup,omitempty"`
}

// storeTTL is the LocalStore TTL of every case; ttlS the same in seconds.
const (
	storeTTL = time.Hour
	ttlS     = int(storeTTL / time.Second)
)

// advances are the clock movements a step may carry: most steps none, otherwise
// a fraction of the TTL (several of them add up), the exact TTL and its two
// neighbours (LocalStore expires strictly after the TTL), and well beyond it.
var advances = []int{0, 0, 0, 0, 0, 0, 0, 0, 0, 0, 0, 0,
	1, ttlS / 3, ttlS / 2, ttlS - 1, ttlS, ttlS + 1, ttlS + 1, 2*ttlS + 5}

// BlobCfg describes what the origin store answers for one blob.
type BlobCfg struct {
	Origins []int `json:"origins"` // distinct origin indexes (may be empty)
	Err     bool  `json:"err"`     // origin store reports "all origins unavailable"
}

type Case struct {
	Policy string    `json:"policy"` // "default" or "completeness"
	Limit  int       `json:"limit"`  // configured announce_limit; 0 = unset (documented default 50)
	Agents int       `json:"agents"`
	Blobs  []BlobCfg `json:"blobs"`
	Steps  []Step    `json:"steps"`
}

func genAnnounce(t *rapid.T) Case {
	c := Case{}
	c.Policy = rapid.SampledFrom([]string{"completeness", "completeness", "completeness", "default"}).Draw(t, "policy")
	c.Limit = rapid.SampledFrom([]int{0, 0, 1, 1, 2, 2, 3, 4, 6, 10, 16}).Draw(t, "limit")
	c.Agents = rapid.IntRange(1, maxAgents).Draw(t, "agents")
	for b := 0; b < numBlobs; b++ {
		var bc BlobCfg
		mask := rapid.IntRange(0, 1<<maxOrigins-1).Draw(t, "originmask")
		for o := 0; o < maxOrigins; o++ {
			if mask&(1<<o) != 0 {
				bc.Origins = append(bc.Origins, o)
			}
		}
		bc.Err = rapid.IntRange(0, 7).Draw(t, "originerr") == 7
		c.Blobs = append(c.Blobs, bc)
	}
	// Slice of slices: long histories on average (about 30 requests) that the shrinker can still delete from.
	chunks := rapid.SliceOfN(rapid.SliceOfN(rapid.Custom(func(t *rapid.T) Step {
		return Step{
			Peer:     rapid.IntRange(0, c.Agents-1).Draw(t, "peer"),
			Blob:     rapid.SampledFrom([]int{0, 0, 0, 1}).Draw(t, "blob"),
			Complete: rapid.IntRange(0, 2).Draw(t, "complete") == 2,
			V1:       rapid.IntRange(0, 3).Draw(t, "v1") == 3,
			NameOnly: rapid.IntRange(0, 4).Draw(t, "nameonly") == 4,
			Advance:  rapid.SampledFrom(advances).Draw(t, "advance"),
			Cleanup:  rapid.SampledFrom([]int{0, 0, 0, 0, 0, 0, 0, 0, 0, 1, 1, 3, 2}).Draw(t, "cleanup"),
		}
	}), 0, 12), 1, 10).Draw(t, "steps")
	for _, ch := range chunks {
		c.Steps = append(c.Steps, ch...)
	}
	return c
}

// seedGlobalRand pins the process-wide math/rand source LocalStore.GetPeers samples
// from to a value derived from the case, so that a case behaves the same on every
// run (rapid refuses to shrink a failure whose message changes between two runs).
// Needs the randseednop=0 directive above: go 1.24 made rand.Seed a no-op.
func seedGlobalRand(c interface{}) {
	b, _ := json.Marshal(c)
	h := fnv.New64a()
	h.Write(b)
	rand.Seed(int64(h.Sum64()))
}

func agentID(i int) core.PeerID {
	var p core.PeerID
	for k := range p {
		p[k] = byte(0x11*(i+1) + k)
	}
	p[0] = 0xA0 | byte(i)
	return p
}

func originID(i int) core.PeerID {
	var p core.PeerID
	for k := range p {
		p[k] = byte(0xF0 - 7*i - k)
	}
	p[0] = 0x0F & byte(i)
	return p
}

func blobDigest(b int) core.Digest {
	d, err := core.NewSHA256DigestFromHex(fmt.Sprintf("%064x", 0xb10b0000+b))
	if err != nil {
		panic(err)
	}
	return d
}

func blobHash(b int) core.InfoHash {
	var h core.InfoHash
	for k := range h {
		h[k] = byte(0x30 + 0x40*b + k)
	}
	return h
}

// fakeOrigins is the origin store of the tracker: the configured origins of a
// blob in the shape the real origin store produces them (origin=true,
// complete=true, a fresh PeerInfo per call), or its "all unavailable" error.
type fakeOrigins struct {
	byDigest map[string]BlobCfg
}

func (f *fakeOrigins) GetOrigins(d core.Digest) ([]*core.PeerInfo, error) {
	bc, ok := f.byDigest[d.Hex()]
	if !ok {
		return nil, errors.New("unknown blob")
	}
	if bc.Err || len(bc.Origins) == 0 {
		return nil, errors.New("all origins unavailable")
	}
	var out []*core.PeerInfo
	for _, o := range bc.Origins {
		out = append(out, core.NewPeerInfo(originID(o), fmt.Sprintf("10.9.0.%d", o+1), 7000+o, true, true))
	}
	return out, nil
}

func normalizeAnnounce(c Case) (Case, bool) {
	if c.Policy != "default" && c.Policy != "completeness" {
		return c, false
	}
	if c.Limit < 0 || c.Agents < 1 || c.Agents > 64 || len(c.Blobs) != numBlobs {
		return c, false
	}
	for _, bc := range c.Blobs {
		seen := map[int]bool{}
		for _, o := range bc.Origins {
			if o < 0 || o >= 16 || seen[o] {
				return c, false
			}
			seen[o] = true
		}
	}
	for _, s := range c.Steps {
		if s.Peer < 0 || s.Peer >= c.Agents || s.Blob < 0 || s.Blob >= numBlobs {
			return c, false
		}
		if s.Advance < 0 || s.Advance > 100*ttlS || s.Cleanup < 0 || s.Cleanup > 3 {
			return c, false
		}
	}
	return c, true
}

func runAnnounce(c Case) pbt.Verdict {
	c, ok := normalizeAnnounce(c)
	if !ok {
		return pbt.Verdict{Discard: true}
	}
	seedGlobalRand(c)
	policy, err := peerhandoutpolicy.NewPriorityPolicy(tally.NoopScope, c.Policy)
	if err != nil {
		return pbt.Fail("harness: policy %q rejected: %v", c.Policy, err)
	}
	clk := newCaseClock(time.Unix(1600000000, 0))
	ps := peerstore.NewLocalStore(peerstore.LocalConfig{TTL: storeTTL}, clk)
	defer ps.Close()
	fo := &fakeOrigins{byDigest: map[string]BlobCfg{}}
	for b, bc := range c.Blobs {
		fo.byDigest[blobDigest(b).Hex()] = bc
	}
	srv := trackerserver.New(trackerserver.Config{PeerHandoutLimit: c.Limit}, tally.NoopScope, policy, ps, fo, nil)
	h := srv.Handler()

	limit := c.Limit
	if limit == 0 {
		limit = 50 // documented default of announce_limit
	}

	// Model: per torrent, the latest completion flag of every agent that announced it.
	latest := make([]map[core.PeerID]bool, numBlobs)
	for b := range latest {
		latest[b] = map[core.PeerID]bool{}
	}
	// Evidence only: when every agent last announced a torrent (harness clock), and which
	// agents have come back to a torrent after a silence longer than the TTL.
	lastAt := make([]map[core.PeerID]time.Time, numBlobs)
	returned := make([]map[core.PeerID]bool, numBlobs)
	for b := range lastAt {
		lastAt[b] = map[core.PeerID]time.Time{}
		returned[b] = map[core.PeerID]bool{}
	}
	classes := map[string]bool{}
	var judged, announcerWasKnown, limitBinding, mixedPriorities, withOrigins int
	var handoutsAfterReturn, handoutsListingReturned int

	for i, s := range c.Steps {
		if s.Advance > 0 {
			clk.Add(time.Duration(s.Advance) * time.Second)
		}
		if s.Cleanup != 0 {
			// The passes the store's wall-clock tickers run (every 5 minutes / every hour).
			expired := false
			for b := range lastAt {
				for _, at := range lastAt[b] {
					if clk.Now().After(at.Add(storeTTL)) {
						expired = true
					}
				}
			}
			if expired {
				classes["cleanup-with-expired-entries"] = true
			}
			if s.Cleanup&1 != 0 {
				ps.VerifCleanupExpiredPeerEntries()
			}
			if s.Cleanup&2 != 0 {
				ps.VerifCleanupExpiredPeerGroups()
			}
		}
		self := agentID(s.Peer)
		d := blobDigest(s.Blob)
		ih := blobHash(s.Blob)
		req := announceclient.Request{
			Name:     d.Hex(),
			InfoHash: ih,
			Peer:     core.NewPeerInfo(self, fmt.Sprintf("10.1.0.%d", s.Peer+1), 5000+s.Peer, false, s.Complete),
		}
		if !s.NameOnly {
			req.Digest = &d
		}
		body, err := json.Marshal(&req)
		if err != nil {
			return pbt.Fail("harness: marshal request: %v", err)
		}
		var hr *http.Request
		if s.V1 {
			hr = httptest.NewRequest("GET", "/announce", bytes.NewReader(body))
		} else {
			hr = httptest.NewRequest("POST", "/announce/"+ih.Hex(), bytes.NewReader(body))
		}
		rec := httptest.NewRecorder()
		h.ServeHTTP(rec, hr)

		_, known := latest[s.Blob][self]
		// The announcement is recorded whatever the response is.
		latest[s.Blob][self] = s.Complete
		if at, ok := lastAt[s.Blob][self]; ok && clk.Now().After(at.Add(storeTTL)) {
			returned[s.Blob][self] = true
			classes["re-announce-after-ttl"] = true
			if s.Cleanup&1 != 0 {
				classes["re-announce-after-ttl-and-cleanup"] = true
			}
		}
		lastAt[s.Blob][self] = clk.Now()

		if rec.Code != http.StatusOK {
			// No hand-out was produced; the statement constrains hand-outs only.
			classes["non-200-response"] = true
			continue
		}
		var resp announceclient.Response
		if err := json.Unmarshal(rec.Body.Bytes(), &resp); err != nil {
			return pbt.Fail("announce response is not valid JSON (step %d): %v: %q", i, err, rec.Body.String())
		}
		judged++
		where := fmt.Sprintf("step %d: peer a%d blob %d complete=%v route=%s limit=%d policy=%s", i, s.Peer, s.Blob, s.Complete, route(s), c.Limit, c.Policy)

		if s.Complete {
			classes["complete-announcer"] = true
			if len(resp.Peers) != 0 {
				return pbt.Fail("hand-out for an announcer that reports completion is not empty (%s): %s", where, show(resp.Peers))
			}
			continue
		}

		originSet := map[core.PeerID]bool{}
		if bc := c.Blobs[s.Blob]; !bc.Err {
			for _, o := range bc.Origins {
				originSet[originID(o)] = true
			}
		}
		seen := map[core.PeerID]bool{}
		agents := 0
		lastPrio := -1
		prios := map[int]bool{}
		for k, p := range resp.Peers {
			if p == nil {
				return pbt.Fail("hand-out contains a null peer (%s)", where)
			}
			if p.PeerID == self {
				return pbt.Fail("hand-out lists the announcing peer itself (%s): %s", where, show(resp.Peers))
			}
			if seen[p.PeerID] {
				return pbt.Fail("hand-out lists a peer twice (%s): %s", where, show(resp.Peers))
			}
			seen[p.PeerID] = true
			var prio int
			if originSet[p.PeerID] {
				prio = 1
			} else {
				complete, announced := latest[s.Blob][p.PeerID]
				if !announced {
					return pbt.Fail("hand-out lists a peer that is neither an origin of the blob nor an agent that announced this torrent (%s): entry %d of %s", where, k, show(resp.Peers))
				}
				agents++
				if complete {
					prio = 0
				} else {
					prio = 2
				}
			}
			if c.Policy == "completeness" {
				if prio < lastPrio {
					return pbt.Fail("hand-out not ordered seeders, origins, incomplete peers (%s): entry %d has class %d after class %d: %s", where, k, prio, lastPrio, show(resp.Peers))
				}
				lastPrio = prio
			}
			prios[prio] = true
		}
		if agents > limit {
			return pbt.Fail("hand-out holds %d agents, more than the configured limit %d (%s): %s", agents, limit, where, show(resp.Peers))
		}
		if len(returned[s.Blob]) > 0 {
			handoutsAfterReturn++
			for id := range seen {
				if returned[s.Blob][id] {
					handoutsListingReturned++
					break
				}
			}
		}
		// Evidence only.
		if known {
			announcerWasKnown++
		}
		others := len(latest[s.Blob]) - 1
		if others >= limit {
			limitBinding++
			classes["population>=limit"] = true
		}
		if len(prios) >= 2 && c.Policy == "completeness" {
			mixedPriorities++
		}
		if len(prios) == 3 && c.Policy == "completeness" {
			classes["all-three-priority-classes"] = true
		}
		if len(originSet) > 0 {
			withOrigins++
		}
		if len(resp.Peers) == 0 {
			classes["empty-handout-incomplete"] = true
		}
	}
	if announcerWasKnown > 0 {
		classes["re-announce"] = true
	}
	if mixedPriorities > 0 {
		classes["mixed-priorities"] = true
	}
	if withOrigins > 0 {
		classes["with-origins"] = true
	}
	if handoutsAfterReturn > 0 {
		classes["handout-after-a-peer-returned"] = true
	}
	if handoutsListingReturned > 0 {
		classes["handout-lists-returned-peer"] = true
	}
	classes["policy-"+c.Policy] = true
	var cl []string
	for k := range classes {
		cl = append(cl, k)
	}
	// Non-trivial: at least two judged hand-outs for incomplete announcers whose torrent had other
	// agents, i.e. the announcer itself was a candidate for its own hand-out.
	nontrivial := false
	{
		n := 0
		seenT := make([]map[int]bool, numBlobs)
		for b := range seenT {
			seenT[b] = map[int]bool{}
		}
		for _, s := range c.Steps {
			seenT[s.Blob][s.Peer] = true
			if !s.Complete && len(seenT[s.Blob]) >= 2 {
				n++
			}
		}
		nontrivial = n >= 2 && judged >= 2
	}
	v := pbt.OK(nontrivial, cl...)
	v.Evals = judged
	if v.Evals == 0 {
		v.Evals = 1
	}
	return v
}

// caseClock is the tracker's clock of one case. The peer store only reads Now();
// clock.Mock would do but sleeps a millisecond of wall time on every Add/Set,
// which adds up over the clock movements of thousands of histories.
type caseClock struct {
	clock.Clock // timers/tickers: unused by the peer store (it uses wall-clock tickers)
	mu          sync.Mutex
	now         time.Time
}

func newCaseClock(t time.Time) *caseClock { return &caseClock{Clock: clock.NewMock(), now: t} }

func (c *caseClock) Now() time.Time {
	c.mu.Lock()
	defer c.mu.Unlock()
	return c.now
}

func (c *caseClock) Add(d time.Duration) {
	c.mu.Lock()
	c.now = c.now.Add(d)
	c.mu.Unlock()
}

func route(s Step) string {
	r := "v2"
	if s.V1 {
		r = "v1"
	}
	if s.NameOnly {
		r += "/name-only"
	}
	return r
}

func show(peers []*core.PeerInfo) string {
	var b bytes.Buffer
	b.WriteString("[")
	for i, p := range peers {
		if i > 0 {
			b.WriteString(" ")
		}
		if p == nil {
			b.WriteString("<nil>")
			continue
		}
		fmt.Fprintf(&b, "%s", p.PeerID.String()[:4])
		if p.Origin {
			b.WriteString("/origin")
		}
		if p.Complete {
			b.WriteString("/complete")
		}
	}
	b.WriteString("]")
	return b.String()
}

// ---------------------------------------------------------------------------
// Part "sortpeers": the policy entry point with the lists a peer store produces
// (fresh PeerInfo values, never the announcer's own pointer).
// ---------------------------------------------------------------------------

type SPeer struct {
	ID       int  `json:"id"`
	Origin   bool `json:"origin"`
	Complete bool `json:"complete"`
}

type SortCase struct {
	Policy string  `json:"policy"`
	Peers  []SPeer `json:"peers"`  // distinct ids
	Source int     `json:"source"` // id of the announcer (may or may not be in Peers)
}

func genSort(t *rapid.T) SortCase {
	c := SortCase{}
	c.Policy = rapid.SampledFrom([]string{"completeness", "completeness", "default"}).Draw(t, "policy")
	n := rapid.IntRange(0, 40).Draw(t, "n")
	ids := rapid.Permutation(seq(48)).Draw(t, "ids")[:n]
	for _, id := range ids {
		kind := rapid.IntRange(0, 3).Draw(t, "kind")
		p := SPeer{ID: id}
		switch kind {
		case 0:
			p.Origin, p.Complete = true, true
		case 1:
			p.Complete = true
		}
		c.Peers = append(c.Peers, p)
	}
	if n > 0 && rapid.IntRange(0, 3).Draw(t, "srcin") != 0 {
		// The announcer is an agent: pick among non-origin entries when possible.
		k := rapid.IntRange(0, n-1).Draw(t, "srcidx")
		for j := 0; j < n; j++ {
			if !c.Peers[(k+j)%n].Origin {
				k = (k + j) % n
				break
			}
		}
		c.Source = c.Peers[k].ID
	} else {
		c.Source = 48 + rapid.IntRange(0, 3).Draw(t, "srcout")
	}
	return c
}

func seq(n int) []int {
	s := make([]int, n)
	for i := range s {
		s[i] = i
	}
	return s
}

func sortID(i int) core.PeerID {
	var p core.PeerID
	p[0] = byte(i)
	p[1] = byte(i * 7)
	p[19] = 0x5A
	return p
}

func runSort(c SortCase) pbt.Verdict {
	if c.Policy != "default" && c.Policy != "completeness" {
		return pbt.Verdict{Discard: true}
	}
	seenIn := map[int]bool{}
	for _, p := range c.Peers {
		if p.ID < 0 || p.ID > 255 || seenIn[p.ID] {
			return pbt.Verdict{Discard: true}
		}
		seenIn[p.ID] = true
	}
	policy, err := peerhandoutpolicy.NewPriorityPolicy(tally.NoopScope, c.Policy)
	if err != nil {
		return pbt.Fail("harness: policy %q rejected: %v", c.Policy, err)
	}
	var in []*core.PeerInfo
	truth := map[core.PeerID]SPeer{}
	for _, p := range c.Peers {
		in = append(in, core.NewPeerInfo(sortID(p.ID), "10.2.0.1", 4000+p.ID, p.Origin, p.Complete))
		truth[sortID(p.ID)] = p
	}
	// The announcer as the tracker sees it: decoded from the request body, an
	// incomplete agent, never the same pointer as a peer-store result.
	src := core.NewPeerInfo(sortID(c.Source), "10.2.0.1", 4000+c.Source, false, false)
	out := policy.SortPeers(src, in)

	want := len(in)
	if _, ok := truth[src.PeerID]; ok {
		want--
	}
	seen := map[core.PeerID]bool{}
	last := -1
	prios := map[int]bool{}
	for k, p := range out {
		if p == nil {
			return pbt.Fail("SortPeers returned a nil entry at %d", k)
		}
		if p.PeerID == src.PeerID {
			return pbt.Fail("SortPeers result lists the source peer (policy %s, %d peers in): %s", c.Policy, len(in), show(out))
		}
		tp, ok := truth[p.PeerID]
		if !ok {
			return pbt.Fail("SortPeers result lists a peer that was not given: %s", p.PeerID)
		}
		if seen[p.PeerID] {
			return pbt.Fail("SortPeers result lists a peer twice: %s", show(out))
		}
		seen[p.PeerID] = true
		if c.Policy == "completeness" {
			prio := 2
			if tp.Origin {
				prio = 1
			} else if tp.Complete {
				prio = 0
			}
			if prio < last {
				return pbt.Fail("SortPeers result not ordered seeders, origins, incomplete peers: entry %d has class %d after class %d: %s", k, prio, last, show(out))
			}
			last = prio
			prios[prio] = true
		}
	}
	if len(out) != want {
		return pbt.Fail("SortPeers returned %d peers, want the %d given peers other than the source: %s", len(out), want, show(out))
	}
	var cl []string
	_, srcIn := truth[src.PeerID]
	if srcIn {
		cl = append(cl, "source-in-list")
	}
	if len(prios) == 3 {
		cl = append(cl, "all-three-priority-classes")
	}
	if len(in) > 12 {
		cl = append(cl, "more-than-12-peers")
	}
	cl = append(cl, "policy-"+c.Policy)
	return pbt.OK(srcIn && len(in) >= 3, cl...)
}

func TestProp(t *testing.T) {
	pbt.Main(t, pbt.Spec{
		ID: "C26",
		Rule: "part announce: 0-120 announce requests (about 30 on average) from 1-18 agents over 2 torrents (drawn completion flag, route v1 GET /announce or v2 POST /announce/{infohash}, digest or name-only body; before 40% of the requests the tracker clock advances by 1s, TTL/3, TTL/2, TTL-1s, TTL, TTL+1s or 2*TTL+5s, so agents fall silent for longer than the peer store TTL and announce again, and before 30% the store's expired-entry and/or expired-group cleanup pass runs) are served by the real trackerserver handler (drawn announce_limit 0=default|1..16, policy completeness|default, real LocalStore, origin store answering 0-4 origins disjoint from agents or an error); every 200 response is judged against a model holding the latest flag per (torrent, agent): no announcer, no duplicate id, only origins of the blob or agents that announced the torrent, agents <= limit, empty for a complete announcer, and under completeness order seeders<origins<incomplete by the model's flags. " +
			"part sortpeers: PriorityPolicy.SortPeers on 0-40 fresh PeerInfo values with distinct ids and a separately allocated source; result must be the given peers minus the source id, ordered by priority. " +
			"non-trivial (announce) = at least two judged hand-outs for incomplete announcers whose torrent already had another agent; (sortpeers) = source id present in a list of >=3; distinct by case hash; evaluations = judged hand-outs",
		Assumptions: []string{
			"origin store replaced by a fake returning origins shaped like the real store's (origin=true, complete=true); origins never announce (origin schedulers use the disabled announce client)",
			"agent completion truth = the flag of its latest announcement for that torrent",
			"non-200 announce responses carry no hand-out and are not judged",
		"the peer store's cleanup passes are invoked through the verif-tagged export of the functions its wall-clock tickers call; the clock is a harness clock",
		"expired agents may still be handed out (LocalStore.GetPeers documents it); the oracle never requires absence of an agent that once announced the torrent",
		},
		Parts: []pbt.Part{
			pbt.NewPart("announce", 3, genAnnounce, runAnnounce),
			pbt.NewPart("sortpeers", 1, genSort, runSort),
		},
	})
}
