package c13

import (
	"fmt"
	"sort"
	"strings"
	"sync"
	"time"

	"github.com/uber/kraken/utils/cache"
	"pgregory.net/rapid"

	"verif/internal/pbt"
)

// Part "lru-timed-evict": LRUCache histories in which the TTL and the size limit
// are both in play. LRUCache reads time.Now itself (it cannot take a clock), so
// the histories run on the real clock with a short TTL and generated sleeps that
// put key ages below, around and above the TTL: keys expire while others are still
// live, expired keys stay held until the next Add of a new key purges them, are
// refreshed before that purge, are deleted, and the cache overflows afterwards.
//
// Oracle: a set-of-possible-states model. A state is the ordered list of held keys
// (least recently added-or-refreshed first), written from the documentation of
// LRUCache: Add of a held key (expired or not, as long as it has not been purged,
// deleted or evicted) refreshes it and moves it to the end; Add of a new key
// appends it, purges expired keys and then drops from the front while more than
// Size keys are held; Has is true iff the key is held and unexpired. Whether a key
// is expired at some call is decided only from the harness's own clock readings
// taken before and after the Add that last stamped it and before and after the
// call: certainly expired, certainly unexpired, or unknown. On "unknown" the model
// follows both possibilities, so it never asserts anything that depends on timing
// it could not observe. Every observation (Has of every key and Size after every
// operation) must be consistent with at least one possible state, and the states
// inconsistent with it are dropped. Because a lane is mostly asleep, a case runs
// several independent lanes (each with its own cache) concurrently.

// LEOp kinds: 0 add, 1 sleep(ms), 2 delete, 3 clear.
type LEOp struct {
	K   int `json:"k"`
	Key int `json:"key,omitempty"`
	Ms  int `json:"ms,omitempty"`
}

type LELane struct {
	Size int    `json:"size"`
	Ops  []LEOp `json:"ops"`
}

type LECase struct {
	Lanes []LELane `json:"lanes"`
}

const (
	leTTL      = 100 * time.Millisecond
	leKeys     = 5
	leMaxSleep = 450 // ms per lane
	leSlack    = 2 * time.Millisecond
)

func genLE(t *rapid.T) LECase {
	var c LECase
	lanes := rapid.SampledFrom([]int{1, 4, 12, 24, 24, 24}).Draw(t, "lanes")
	for l := 0; l < lanes; l++ {
		lane := LELane{Size: rapid.IntRange(1, 3).Draw(t, "size")}
		n := rapid.IntRange(4, 16).Draw(t, "nops")
		slept := 0
		var added []int // keys added so far: re-adding them is what makes refreshes (of live and of expired keys)
		for i := 0; i < n; i++ {
			op := LEOp{K: rapid.SampledFrom([]int{0, 0, 0, 0, 0, 0, 0, 0, 0, 0, 1, 1, 1, 1, 2, 3}).Draw(t, "k")}
			switch op.K {
			case 1:
				// fractions and multiples of the TTL: two mid sleeps expire a key while a
				// key added between them stays live
				op.Ms = rapid.SampledFrom([]int{10, 45, 70, 70, 100, 130, 130}).Draw(t, "ms")
				if slept+op.Ms > leMaxSleep {
					op.Ms = 10
				}
				slept += op.Ms
			case 0:
				if len(added) > 0 && rapid.Bool().Draw(t, "again") {
					op.Key = rapid.SampledFrom(added).Draw(t, "key")
				} else {
					op.Key = rapid.IntRange(0, leKeys-1).Draw(t, "key")
					added = append(added, op.Key)
				}
			case 2:
				op.Key = rapid.IntRange(0, leKeys-1).Draw(t, "key")
			}
			lane.Ops = append(lane.Ops, op)
		}
		c.Lanes = append(c.Lanes, lane)
	}
	return c
}

type leStamp struct{ before, after time.Time } // clock readings around the Add that last stamped the key

// age of a key at a call bracketed by [t0,t1]: +1 certainly expired, -1 certainly unexpired, 0 unknown.
func (s leStamp) age(t0, t1 time.Time) int {
	switch {
	case t0.Sub(s.after) > leTTL+leSlack:
		return 1
	case t1.Sub(s.before) < leTTL-leSlack:
		return -1
	}
	return 0
}

type leLaneResult struct {
	violation string
	cls       map[string]bool
	judged    bool
}

func leStateKey(s []int) string { return fmt.Sprint(s) }

func leIndex(s []int, k int) int {
	for i, x := range s {
		if x == k {
			return i
		}
	}
	return -1
}

func leWithout(s []int, i int) []int {
	out := make([]int, 0, len(s))
	out = append(out, s[:i]...)
	return append(out, s[i+1:]...)
}

func leDedupe(states [][]int) [][]int {
	seen := map[string]bool{}
	var out [][]int
	for _, s := range states {
		k := leStateKey(s)
		if !seen[k] {
			seen[k] = true
			out = append(out, s)
		}
	}
	sort.Slice(out, func(i, j int) bool { return leStateKey(out[i]) < leStateKey(out[j]) })
	return out
}

func leShow(states [][]int) string {
	var parts []string
	for _, s := range states {
		parts = append(parts, leStateKey(s))
	}
	return strings.Join(parts, " or ")
}

func runLELane(lane LELane) (res leLaneResult) {
	res.cls = map[string]bool{}
	defer func() {
		if r := recover(); r != nil {
			res.violation = fmt.Sprintf("LRUCache (TTL and size limit together): panic: %v", r)
		}
	}()
	lc := cache.NewLRUCache(cache.LRUCacheConfig{Size: lane.Size, TTL: leTTL})
	stamps := make([]leStamp, leKeys)
	states := [][]int{{}} // possible held-key orders, oldest first
	slept := 0
	var trace []string
	expiredRefresh := false // a held key was refreshed after it certainly expired
	sawPurge, sawEvict := false, false

	observe := func(i int) string {
		// Size() counts held keys. When an expired key stops being held is not part of the
		// property (only that it is never reported), so Size() is only bounded: at least the
		// certainly unexpired held keys, at most the held keys of the lazily purging model.
		s0 := time.Now()
		n := lc.Size()
		s1 := time.Now()
		if n > lane.Size {
			return fmt.Sprintf("LRUCache (TTL and size limit together): holds more keys than the configured size\nSize() = %d, configured size %d; after op %d; history: %s", n, lane.Size, i, strings.Join(trace, " "))
		}
		{
			var keep [][]int
			for _, s := range states {
				live := 0
				for _, x := range s {
					if stamps[x].age(s0, s1) < 0 {
						live++
					}
				}
				if live <= n && n <= len(s) {
					keep = append(keep, s)
				}
			}
			if len(keep) == 0 {
				return fmt.Sprintf("LRUCache (TTL and size limit together): Size() disagrees with every history the clock readings allow\nSize() = %d; possible held keys (oldest first): %s; after op %d; history: %s", n, leShow(states), i, strings.Join(trace, " "))
			}
			states = keep
		}
		for k := 0; k < leKeys; k++ {
			t0 := time.Now()
			got := lc.Has(lrKey(k))
			t1 := time.Now()
			age := stamps[k].age(t0, t1)
			var keep [][]int
			held := 0
			for _, s := range states {
				in := leIndex(s, k) >= 0
				if in {
					held++
				}
				var ok bool
				switch {
				case !in:
					ok = !got
				case age > 0:
					ok = !got
				case age < 0:
					ok = got
				default:
					ok = true
				}
				if ok {
					keep = append(keep, s)
				}
			}
			if len(keep) == 0 {
				detail := fmt.Sprintf("size %d, TTL %v; possible held keys (oldest first): %s; after op %d; history: %s", lane.Size, leTTL, leShow(states), i, strings.Join(trace, " "))
				switch {
				case got && held == 0:
					return fmt.Sprintf("LRUCache (TTL and size limit together): Has(key) = true for a key that was deleted, purged or should have been dropped first\nkey-%d; %s", k, detail)
				case got:
					return fmt.Sprintf("LRUCache (TTL and size limit together): an expired key was reported\nkey-%d was last added at least %v ago; %s", k, t0.Sub(stamps[k].after).Round(time.Millisecond), detail)
				case held == len(states):
					return fmt.Sprintf("LRUCache (TTL and size limit together): an unexpired key among the most recently added or refreshed keys is missing (another key was kept instead of the least recently added or refreshed one)\nkey-%d was last added at most %v ago; %s", k, t1.Sub(stamps[k].before).Round(time.Millisecond), detail)
				default:
					return fmt.Sprintf("LRUCache (TTL and size limit together): Has(key) = false disagrees with every history the clock readings allow\nkey-%d; %s", k, detail)
				}
			}
			if age != 0 && held > 0 {
				res.judged = true
			}
			states = keep
		}
		return ""
	}

	for i, op := range lane.Ops {
		if (op.K == 0 || op.K == 2) && (op.Key < 0 || op.Key >= leKeys) {
			continue
		}
		switch op.K {
		case 0:
			k := op.Key
			b := time.Now()
			lc.Add(lrKey(k))
			a := time.Now()
			trace = append(trace, fmt.Sprintf("add(%d)", k))
			var next [][]int
			for _, s := range states {
				if j := leIndex(s, k); j >= 0 {
					// held (expired or not): refresh, move to the end, nothing else changes
					if stamps[k].age(b, a) > 0 {
						expiredRefresh = true
						res.cls["refreshed-key-that-expired-but-was-not-purged"] = true
					} else {
						res.cls["refreshed-live-key"] = true
					}
					next = append(next, append(leWithout(s, j), k))
					continue
				}
				// new key: purge the expired keys (both ways where the age is unknown), then enforce the size
				alts := [][]int{{}}
				for _, x := range s {
					switch stamps[x].age(b, a) {
					case 1:
						sawPurge = true
						res.cls["add-purged-expired-key"] = true
					case -1:
						for ai := range alts {
							alts[ai] = append(alts[ai], x)
						}
					default:
						res.cls["age-near-ttl-both-outcomes-followed"] = true
						n := len(alts)
						for ai := 0; ai < n; ai++ {
							alts = append(alts, append(append([]int{}, alts[ai]...), x))
						}
					}
				}
				for _, alt := range alts {
					alt = append(alt, k)
					if len(alt) > lane.Size {
						sawEvict = true
						res.cls["evicted-by-size"] = true
						if len(alt) < len(s)+1 {
							res.cls["purge-and-size-eviction-in-one-add"] = true
						}
						if expiredRefresh {
							res.cls["evicted-by-size-after-refresh-of-expired-key"] = true
						}
						alt = alt[len(alt)-lane.Size:]
					}
					next = append(next, alt)
				}
			}
			stamps[k] = leStamp{before: b, after: a}
			states = leDedupe(next)
		case 1:
			if op.Ms <= 0 || op.Ms > 200 || slept+op.Ms > leMaxSleep+50 {
				continue
			}
			slept += op.Ms
			time.Sleep(time.Duration(op.Ms) * time.Millisecond)
			trace = append(trace, fmt.Sprintf("sleep(%dms)", op.Ms))
		case 2:
			lc.Delete(lrKey(op.Key))
			trace = append(trace, fmt.Sprintf("delete(%d)", op.Key))
			var next [][]int
			for _, s := range states {
				if j := leIndex(s, op.Key); j >= 0 {
					res.cls["deleted-held-key"] = true
					s = leWithout(s, j)
				}
				next = append(next, s)
			}
			states = leDedupe(next)
		case 3:
			lc.Clear()
			trace = append(trace, "clear")
			states = [][]int{{}}
		default:
			continue
		}
		if v := observe(i); v != "" {
			res.violation = v
			return res
		}
	}
	res.cls["lane-with-ttl-purge-and-size-eviction"] = sawPurge && sawEvict
	return res
}

func runLE(c LECase) pbt.Verdict {
	if len(c.Lanes) == 0 || len(c.Lanes) > 32 {
		return pbt.Verdict{Discard: true}
	}
	for _, l := range c.Lanes {
		if l.Size < 1 || l.Size > 8 || len(l.Ops) > 64 {
			return pbt.Verdict{Discard: true}
		}
	}
	results := make([]leLaneResult, len(c.Lanes))
	var wg sync.WaitGroup
	for i := range c.Lanes {
		wg.Add(1)
		go func(i int) {
			defer wg.Done()
			results[i] = runLELane(c.Lanes[i])
		}(i)
	}
	wg.Wait()
	cls := map[string]bool{}
	judged := 0
	for i, r := range results {
		if r.violation != "" {
			first, rest, _ := strings.Cut(r.violation, "\n")
			return pbt.Fail("%s\nlane %d: %s", first, i, rest)
		}
		if r.judged {
			judged++
		}
		for k, v := range r.cls {
			if v {
				cls[k] = true
			}
		}
	}
	v := pbt.OK(cls["lane-with-ttl-purge-and-size-eviction"] || cls["evicted-by-size-after-refresh-of-expired-key"], classList(cls)...)
	v.Evals = len(c.Lanes)
	return v
}
