package c13

import (
	"fmt"
	"sync"
	"sync/atomic"
	"time"

	"github.com/uber-go/tally"
	"github.com/uber/kraken/utils/cache"
	"pgregory.net/rapid"

	"verif/internal/pbt"
)

// Part "stress": several goroutines run generated operation lists against one
// BlobMemoryCache and one LRUCache at the same time (the Go scheduler picks the
// interleaving; the thorough tier builds with -race). The oracle is what must hold
// under every interleaving: the accounted bytes never exceed the maximum, the key
// cache never exceeds its size, and once every goroutine has finished (every
// reservation either turned into an entry or released) the accounted bytes equal
// the bytes of the stored entries. This part is weaker than the model-based parts:
// it samples schedules and its failures do not shrink or replay deterministically.

// SOp kinds: 0 reserve+add(name,size), 1 reserve+release(size), 2 remove(name), 3 batch(name,name2),
// 4 expire sweep, 5 lru add(key), 6 lru delete(key), 7 lru has(key).
type SOp struct {
	K    int `json:"k"`
	Name int `json:"name,omitempty"`
	N2   int `json:"n2,omitempty"`
	Size int `json:"size,omitempty"`
}

type SCase struct {
	Max     int     `json:"max"`
	LRUSize int     `json:"lru_size"`
	Workers [][]SOp `json:"workers"`
}

const sNames = 5

func genS(t *rapid.T) SCase {
	c := SCase{Max: rapid.SampledFrom([]int{8, 32, 128}).Draw(t, "max"), LRUSize: rapid.IntRange(1, 3).Draw(t, "lru")}
	g := rapid.IntRange(2, 4).Draw(t, "goroutines")
	for w := 0; w < g; w++ {
		n := rapid.IntRange(5, 60).Draw(t, "nops")
		var ops []SOp
		for i := 0; i < n; i++ {
			op := SOp{K: rapid.SampledFrom([]int{0, 0, 0, 1, 1, 2, 2, 3, 4, 5, 5, 6, 7}).Draw(t, "k")}
			op.Name = rapid.IntRange(0, sNames-1).Draw(t, "name")
			op.N2 = rapid.IntRange(0, sNames-1).Draw(t, "n2")
			op.Size = rapid.IntRange(0, c.Max/2+1).Draw(t, "size")
			ops = append(ops, op)
		}
		c.Workers = append(c.Workers, ops)
	}
	return c
}

func runS(c SCase) pbt.Verdict {
	if c.Max < 0 || c.LRUSize < 1 || len(c.Workers) == 0 || len(c.Workers) > 8 {
		return pbt.Verdict{Discard: true}
	}
	max := uint64(c.Max)
	mc := cache.NewBlobMemoryCache(cache.BlobMemoryCacheConfig{MaxSize: max}, tally.NoopScope)
	lc := cache.NewLRUCache(cache.LRUCacheConfig{Size: c.LRUSize, TTL: time.Hour})
	epoch := time.Unix(1000, 0)

	var over, lruOver int64 // worst observations
	var admitted, refused, dups int64
	observe := func() {
		if t := mc.TotalBytes(); t > max {
			atomic.StoreInt64(&over, int64(t))
		}
		if n := lc.Size(); n > c.LRUSize {
			atomic.StoreInt64(&lruOver, int64(n))
		}
	}
	start := make(chan struct{})
	var wg sync.WaitGroup
	var panicked atomic.Value
	for w, ops := range c.Workers {
		wg.Add(1)
		go func(w int, ops []SOp) {
			defer wg.Done()
			defer func() {
				if r := recover(); r != nil {
					panicked.Store(fmt.Sprint(r))
				}
			}()
			<-start
			for _, op := range ops {
				if op.Name < 0 || op.Name >= sNames || op.N2 < 0 || op.N2 >= sNames || op.Size < 0 {
					continue
				}
				switch op.K {
				case 0:
					s := uint64(op.Size)
					if !mc.TryReserve(s) {
						atomic.AddInt64(&refused, 1)
						break
					}
					atomic.AddInt64(&admitted, 1)
					e := &cache.MemoryEntry{Name: bcName(op.Name), Data: make([]byte, s), CreatedAt: epoch.Add(time.Duration(op.N2) * time.Second)}
					if !mc.Add(e) {
						mc.ReleaseReservation(s) // documented duty of the caller on a duplicate
						atomic.AddInt64(&dups, 1)
					}
				case 1:
					s := uint64(op.Size)
					if mc.TryReserve(s) {
						atomic.AddInt64(&admitted, 1)
						observe()
						mc.ReleaseReservation(s)
					} else {
						atomic.AddInt64(&refused, 1)
					}
				case 2:
					mc.Remove(bcName(op.Name))
				case 3:
					mc.RemoveBatch([]string{bcName(op.Name), bcName(op.N2)})
				case 4:
					mc.RemoveBatch(mc.GetExpiredEntries(epoch.Add(10*time.Second), time.Duration(10-op.N2)*time.Second))
				case 5:
					lc.Add(lrKey(op.Name))
				case 6:
					lc.Delete(lrKey(op.Name))
				case 7:
					lc.Has(lrKey(op.Name))
				}
				observe()
			}
		}(w, ops)
	}
	close(start)
	wg.Wait()
	if p := panicked.Load(); p != nil {
		return pbt.Fail("stress: panic in a cache operation: %v", p)
	}
	if o := atomic.LoadInt64(&over); o != 0 {
		return pbt.Fail("BlobMemoryCache (concurrent callers): accounted bytes %d observed above the configured maximum %d", o, max)
	}
	if o := atomic.LoadInt64(&lruOver); o != 0 {
		return pbt.Fail("LRUCache (concurrent callers): %d keys observed, configured size %d", o, c.LRUSize)
	}
	// Everybody finished: no reservation is outstanding.
	var stored uint64
	n := 0
	for i := 0; i < sNames; i++ {
		if e := mc.Get(bcName(i)); e != nil {
			stored += e.Size()
			n++
		}
	}
	if t := mc.TotalBytes(); t != stored {
		return pbt.Fail("BlobMemoryCache (concurrent callers): after all callers finished accounted bytes %d != bytes of stored entries %d", t, stored)
	}
	if got := mc.NumEntries(); got != n {
		return pbt.Fail("BlobMemoryCache (concurrent callers): NumEntries %d, %d names answer Get", got, n)
	}
	var all []string
	for i := 0; i < sNames; i++ {
		all = append(all, bcName(i))
	}
	mc.RemoveBatch(all)
	if t, k := mc.TotalBytes(), mc.NumEntries(); t != 0 || k != 0 {
		return pbt.Fail("BlobMemoryCache (concurrent callers): after removing every entry %d bytes are still accounted and %d entries stored", t, k)
	}
	if k := lc.Size(); k > c.LRUSize {
		return pbt.Fail("LRUCache (concurrent callers): holds %d keys, configured size %d", k, c.LRUSize)
	}
	cls := map[string]bool{"reserve-refused": refused > 0, "duplicate-add-released": dups > 0}
	return pbt.OK(admitted >= 2 && refused >= 1, classList(cls)...)
}
