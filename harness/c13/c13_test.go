// C13 — memory caches stay within budget and their accounting balances.
package c13

import (
	"testing"

	"github.com/uber/kraken/utils/log"
	"go.uber.org/zap"

	"verif/internal/pbt"
)

func TestProp(t *testing.T) {
	log.SetGlobalLogger(zap.NewNop().Sugar())
	pbt.Main(t, pbt.Spec{
		ID: "C13",
		Rule: "generated histories: blobcache = <=40 reserve/add/release/remove/batch/expire/get operations on BlobMemoryCache (MaxSize 0-256, 4 names, sizes around the remaining budget, Add only with an outstanding reservation of exactly the entry's length, duplicate Add followed by the documented release); " +
			"castore = <=14 CAStore.WriteBlobToCacheWithMetaInfo writes (ok / writer fails once or twice / name not a digest / stream not hashing to the name / duplicate of a memory entry / declared size differing from the stream) interleaved with synchronous drain steps and TTL sweeps on a harness clock; " +
			"lru = <=50 add/has/delete/clear/size operations on LRUCache (size 1-4, long TTL); lru-timed = real-clock family with TTL 200 ms; lru-timed-evict = 1-24 concurrent lanes, each <=16 add/sleep/delete/clear operations on its own LRUCache (size 1-3, 5 keys, TTL 100 ms on the real clock, sleeps of 10-130 ms so keys expire while others stay live, are refreshed after expiring but before the next purge, and the cache overflows afterwards); stress = 2-4 goroutines with generated operation lists on one BlobMemoryCache and one LRUCache. " +
			"Compared: after every operation TotalBytes <= MaxSize and TotalBytes == bytes of stored entries + outstanding reservations (byte model for blobcache, bytes read back from the memory entries for castore), TryReserve admitted iff it fits, NumEntries/ListNames/Get/GetExpiredEntries against the model; at quiescence (all drained) nothing stored or accounted; LRU Size/Has of every key against an ordered-list model (least recently added-or-refreshed first); lru-timed-evict: Size and Has of every key after every operation must be consistent with at least one state of a set-of-possible-states model (held keys oldest first; expiry decided only from bracketing clock readings, both outcomes followed when the age is within 2 ms of the TTL). " +
			"Non-trivial: blobcache = >=1 refused and >=2 admitted reservations and >=1 removal or duplicate add; castore = >=1 write served by memory and >=1 failing/duplicate/mismatching write; lru = >=1 eviction by size; lru-timed = >=1 certainly-fresh and >=1 certainly-expired key judged; lru-timed-evict = a lane with both a TTL purge and a size eviction, or a size eviction after a refresh of an expired unpurged key; stress = >=2 admitted and >=1 refused reservation. Distinct by case hash.",
		Assumptions: []string{
			"reference models of BlobMemoryCache and LRUCache written from the property statement and the documented calling convention (Add only after TryReserve; release on duplicate)",
			"CAStore background drain and TTL workers are kept idle (tickers of the harness clock never fire); drain steps and TTL sweeps run through the verif entry points",
			"the stress part samples interleavings chosen by the Go scheduler and checks only interleaving-independent invariants",
			"lru-timed judges a key only when the harness's bracketing clock readings put its age clearly below or above the TTL",
			"lru-timed-evict: LRUCache reads the real clock; the model treats a key's expiry as unknown unless the harness's monotonic clock readings around the stamping Add and around the observing call decide it, and a key that is still held (not purged, deleted or evicted) is refreshed by Add whether or not it has expired, as the Add documentation says",
		},
		Parts: []pbt.Part{
			pbt.NewPart("blobcache", 40, genBC, runBC),
			pbt.NewPart("castore", 16, genCS, runCS),
			pbt.NewPart("lru", 36, genLR, runLR),
			pbt.NewPart("lru-timed", 1, genLT, runLT),
			pbt.NewPart("lru-timed-evict", 1, genLE, runLE),
			pbt.NewPart("stress", 7, genS, runS),
		},
	})
}
