package c13

import (
	"fmt"
	"time"

	"github.com/uber/kraken/utils/cache"
	"pgregory.net/rapid"

	"verif/internal/pbt"
)

// Part "lru": LRUCache histories with a TTL far longer than the case, against an
// ordered-list model (least recently added-or-refreshed first).
// Part "lru-timed": a small family with a 200 ms TTL on the real clock; presence
// is only asserted when the key is certainly unexpired and absence only when it is
// certainly expired, by the harness's own bracketing clock readings.

// LROp kinds: 0 add, 1 has, 2 delete, 3 clear, 4 size.
type LROp struct {
	K   int `json:"k"`
	Key int `json:"key,omitempty"`
}

type LRCase struct {
	Size int    `json:"size"`
	Keys int    `json:"keys"`
	Ops  []LROp `json:"ops"`
}

func genLR(t *rapid.T) LRCase {
	c := LRCase{Size: rapid.IntRange(1, 4).Draw(t, "size")}
	c.Keys = c.Size + rapid.IntRange(1, 3).Draw(t, "extra")
	n := rapid.IntRange(1, 50).Draw(t, "nops")
	for i := 0; i < n; i++ {
		op := LROp{K: rapid.SampledFrom([]int{0, 0, 0, 0, 0, 0, 1, 1, 2, 2, 3, 4}).Draw(t, "k")}
		if op.K <= 2 {
			op.Key = rapid.IntRange(0, c.Keys-1).Draw(t, "key")
		}
		c.Ops = append(c.Ops, op)
	}
	return c
}

func lrKey(i int) string { return fmt.Sprintf("key-%d", i) }

func runLR(c LRCase) pbt.Verdict {
	if c.Size < 1 || c.Keys < 1 || c.Keys > 16 {
		return pbt.Verdict{Discard: true}
	}
	lc := cache.NewLRUCache(cache.LRUCacheConfig{Size: c.Size, TTL: 24 * time.Hour})
	var order []int // model: least recently added-or-refreshed first
	cls := map[string]bool{}
	idx := func(k int) int {
		for i, x := range order {
			if x == k {
				return i
			}
		}
		return -1
	}
	evictions, reorderedEvictions := 0, 0
	inserted := []int{} // insertion order ignoring refreshes, to tell refresh-sensitive evictions apart
	dropIns := func(k int) {
		out := inserted[:0]
		for _, x := range inserted {
			if x != k {
				out = append(out, x)
			}
		}
		inserted = out
	}
	for i, op := range c.Ops {
		if op.K <= 2 && (op.Key < 0 || op.Key >= c.Keys) {
			continue
		}
		switch op.K {
		case 0:
			lc.Add(lrKey(op.Key))
			if j := idx(op.Key); j >= 0 {
				order = append(append(order[:j:j], order[j+1:]...), op.Key)
				if j != len(order)-1 {
					cls["refresh-moved-key"] = true
				}
			} else {
				order = append(order, op.Key)
				inserted = append(inserted, op.Key)
				for len(order) > c.Size {
					victim := order[0]
					order = order[1:]
					evictions++
					if inserted[0] != victim {
						reorderedEvictions++
						cls["evicted-key-is-not-the-oldest-inserted"] = true
					}
					dropIns(victim)
				}
			}
		case 1:
			// checked for all keys below
		case 2:
			lc.Delete(lrKey(op.Key))
			if j := idx(op.Key); j >= 0 {
				order = append(order[:j:j], order[j+1:]...)
				dropIns(op.Key)
				cls["deleted-present-key"] = true
			}
		case 3:
			lc.Clear()
			order = nil
			inserted = inserted[:0]
			cls["cleared"] = true
		case 4:
		default:
			continue
		}
		if n := lc.Size(); n != len(order) {
			if n > c.Size {
				return pbt.Fail("LRUCache: holds %d keys, configured size %d (after op %d)", n, c.Size, i)
			}
			return pbt.Fail("LRUCache: Size() = %d, want %d (after op %d; model order %v)", n, len(order), i, order)
		}
		for k := 0; k < c.Keys; k++ {
			want := idx(k) >= 0
			if got := lc.Has(lrKey(k)); got != want {
				if want {
					return pbt.Fail("LRUCache: key-%d is missing although it is among the %d most recently added or refreshed keys (after op %d; model order oldest first %v)", k, c.Size, i, order)
				}
				return pbt.Fail("LRUCache: Has(key-%d) = true for a key that was deleted, cleared or should have been evicted first (after op %d; model order oldest first %v)", k, i, order)
			}
		}
	}
	if evictions > 0 {
		cls["evicted-by-size"] = true
	}
	return pbt.OK(evictions >= 1, classList(cls)...)
}

// ---- timed family ----------------------------------------------------------

// LTOp kinds: 0 add, 1 has, 2 sleep(ms), 3 delete.
type LTOp struct {
	K   int `json:"k"`
	Key int `json:"key,omitempty"`
	Ms  int `json:"ms,omitempty"`
}

type LTCase struct {
	Ops []LTOp `json:"ops"`
}

const (
	ltTTL  = 200 * time.Millisecond
	ltKeys = 3
)

func genLT(t *rapid.T) LTCase {
	var c LTCase
	n := rapid.IntRange(4, 10).Draw(t, "nops")
	long := 0
	for i := 0; i < n; i++ {
		op := LTOp{K: rapid.SampledFrom([]int{0, 0, 1, 1, 2, 2, 3}).Draw(t, "k")}
		if op.K == 2 {
			op.Ms = rapid.SampledFrom([]int{20, 270, 270}).Draw(t, "ms")
			if op.Ms > 100 {
				long++
				if long > 2 {
					op.Ms = 20
				}
			}
		} else {
			op.Key = rapid.IntRange(0, ltKeys-1).Draw(t, "key")
		}
		c.Ops = append(c.Ops, op)
	}
	return c
}

func runLT(c LTCase) pbt.Verdict {
	// Size is larger than the key space: only the TTL can remove a key.
	lc := cache.NewLRUCache(cache.LRUCacheConfig{Size: 8, TTL: ltTTL})
	type st struct {
		present        bool
		before, after  time.Time // bracket of the last Add
	}
	keys := make([]st, ltKeys)
	cls := map[string]bool{}
	sure := 0
	slept := 0
	checkAll := func(i int) *pbt.Verdict {
		for k := range keys {
			t0 := time.Now()
			got := lc.Has(lrKey(k))
			t1 := time.Now()
			s := keys[k]
			switch {
			case !s.present:
				if got {
					v := pbt.Fail("LRUCache: Has(key-%d) = true for a key that was never added or was deleted (after op %d)", k, i)
					return &v
				}
			case t0.Sub(s.after) > ltTTL+50*time.Millisecond:
				// the whole Has call happened more than TTL after the whole Add call
				if got {
					v := pbt.Fail("LRUCache: Has(key-%d) = true at least %v after it was last added (TTL %v): an expired key was reported", k, t0.Sub(s.after).Round(time.Millisecond), ltTTL)
					return &v
				}
				sure++
				cls["expired-key-not-reported"] = true
			case t1.Sub(s.before) < ltTTL-100*time.Millisecond:
				if !got {
					v := pbt.Fail("LRUCache: Has(key-%d) = false at most %v after it was added (TTL %v)", k, t1.Sub(s.before).Round(time.Millisecond), ltTTL)
					return &v
				}
				sure++
				cls["fresh-key-reported"] = true
			default:
				cls["age-near-ttl-not-judged"] = true
			}
		}
		return nil
	}
	for i, op := range c.Ops {
		if op.K != 2 && (op.Key < 0 || op.Key >= ltKeys) {
			continue
		}
		switch op.K {
		case 0:
			b := time.Now()
			lc.Add(lrKey(op.Key))
			a := time.Now()
			if keys[op.Key].present {
				cls["refreshed"] = true
			}
			keys[op.Key] = st{present: true, before: b, after: a}
		case 1:
		case 2:
			if op.Ms <= 0 || op.Ms > 400 || slept > 900 {
				continue
			}
			slept += op.Ms
			time.Sleep(time.Duration(op.Ms) * time.Millisecond)
		case 3:
			lc.Delete(lrKey(op.Key))
			keys[op.Key] = st{}
		}
		if v := checkAll(i); v != nil {
			return *v
		}
	}
	return pbt.OK(cls["expired-key-not-reported"] && cls["fresh-key-reported"], classList(cls)...)
}
