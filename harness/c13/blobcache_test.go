package c13

import (
	"fmt"
	"sort"
	"time"

	"github.com/uber-go/tally"
	"github.com/uber/kraken/utils/cache"
	"pgregory.net/rapid"

	"verif/internal/pbt"
)

// Part "blobcache": BlobMemoryCache API histories against a byte-accounting model.
//
// Only documented usage is generated: Add always consumes one outstanding
// reservation and the entry has exactly the reserved length; when Add reports a
// duplicate the caller releases the reservation (as the Add comment requires);
// ReleaseReservation only ever returns an outstanding reservation.

// BCOp kinds: reserve, add, release, remove, batch, expire, get.
type BCOp struct {
	K     string `json:"k"`
	S     int    `json:"s,omitempty"`     // reserve: size; -1 = exactly the remaining budget, -2 = remaining budget + 1
	Res   int    `json:"res,omitempty"`   // add/release: index into the outstanding reservations
	Name  int    `json:"name,omitempty"`  // add/remove/get
	Names []int  `json:"names,omitempty"` // batch (may repeat, may name absent entries)
	At    int    `json:"at,omitempty"`    // add: CreatedAt (s); expire: now (s)
	TTL   int    `json:"ttl,omitempty"`   // expire
}

type BCCase struct {
	Max int    `json:"max"`
	Ops []BCOp `json:"ops"`
}

const bcNames = 4

func genBC(t *rapid.T) BCCase {
	c := BCCase{Max: rapid.SampledFrom([]int{0, 7, 16, 16, 64, 64, 256}).Draw(t, "max")}
	n := rapid.IntRange(4, 40).Draw(t, "nops")
	for i := 0; i < n; i++ {
		op := BCOp{K: rapid.SampledFrom([]string{"reserve", "reserve", "reserve", "add", "add", "add", "release", "remove", "remove", "batch", "expire", "get"}).Draw(t, "k")}
		switch op.K {
		case "reserve":
			if rapid.IntRange(0, 4).Draw(t, "edge") == 0 {
				op.S = rapid.SampledFrom([]int{-1, -2}).Draw(t, "s")
			} else {
				op.S = rapid.IntRange(0, c.Max/3+2).Draw(t, "s")
			}
		case "add":
			op.Res = rapid.IntRange(0, 5).Draw(t, "res")
			op.Name = rapid.IntRange(0, bcNames-1).Draw(t, "name")
			op.At = 2 * rapid.IntRange(0, 50).Draw(t, "at")
		case "release":
			op.Res = rapid.IntRange(0, 5).Draw(t, "res")
		case "remove", "get":
			op.Name = rapid.IntRange(0, bcNames-1).Draw(t, "name")
		case "batch":
			op.Names = rapid.SliceOfN(rapid.IntRange(0, bcNames-1), 0, 5).Draw(t, "names")
		case "expire":
			op.At = 2*rapid.IntRange(0, 80).Draw(t, "now") + 1
			op.TTL = 2 * rapid.IntRange(0, 30).Draw(t, "ttl")
		}
		c.Ops = append(c.Ops, op)
	}
	return c
}

type bcEntry struct {
	size    uint64
	created int
	ptr     *cache.MemoryEntry
}

func bcName(i int) string { return fmt.Sprintf("blob-%d", i) }

func runBC(c BCCase) pbt.Verdict {
	if c.Max < 0 {
		return pbt.Verdict{Discard: true}
	}
	max := uint64(c.Max)
	mc := cache.NewBlobMemoryCache(cache.BlobMemoryCacheConfig{MaxSize: max}, tally.NoopScope)
	epoch := time.Unix(1000, 0)

	var total uint64
	var res []uint64
	entries := map[string]*bcEntry{}
	cls := map[string]bool{}
	var refused, admitted, dupAdds, removedPresent int

	check := func(i int, op BCOp) *pbt.Verdict {
		var want uint64
		for _, e := range entries {
			want += e.size
		}
		for _, r := range res {
			want += r
		}
		if want != total {
			v := pbt.Fail("harness: model total %d != recomputed %d", total, want)
			return &v
		}
		got := mc.TotalBytes()
		if got > max {
			v := pbt.Fail("BlobMemoryCache: accounted bytes %d exceed the configured maximum %d (after op %d %s)", got, max, i, op.K)
			return &v
		}
		if got != want {
			v := pbt.Fail("BlobMemoryCache: accounted bytes %d != stored entries + outstanding reservations = %d (after op %d %s)", got, want, i, op.K)
			return &v
		}
		if n := mc.NumEntries(); n != len(entries) {
			v := pbt.Fail("BlobMemoryCache: NumEntries %d, want %d (after op %d %s)", n, len(entries), i, op.K)
			return &v
		}
		names := mc.ListNames()
		sort.Strings(names)
		var wn []string
		for n := range entries {
			wn = append(wn, n)
		}
		sort.Strings(wn)
		if fmt.Sprint(names) != fmt.Sprint(wn) {
			v := pbt.Fail("BlobMemoryCache: ListNames %v, want %v (after op %d %s)", names, wn, i, op.K)
			return &v
		}
		return nil
	}

	for i, op := range c.Ops {
		switch op.K {
		case "reserve":
			var s uint64
			switch {
			case op.S == -1:
				s = max - total
				cls["reserve-exactly-remaining"] = true
			case op.S == -2:
				s = max - total + 1
				cls["reserve-remaining-plus-one"] = true
			case op.S >= 0:
				s = uint64(op.S)
			default:
				continue
			}
			if len(res) >= 6 {
				cls["skip-reserve-cap"] = true
				continue
			}
			got := mc.TryReserve(s)
			want := total+s <= max
			if got != want {
				if got {
					return pbt.Fail("BlobMemoryCache: TryReserve(%d) admitted with %d of %d bytes accounted: would take the accounted bytes above the maximum", s, total, max)
				}
				return pbt.Fail("BlobMemoryCache: TryReserve(%d) refused with %d of %d bytes accounted although it fits", s, total, max)
			}
			if got {
				res = append(res, s)
				total += s
				admitted++
			} else {
				refused++
			}
		case "add":
			if len(res) == 0 || op.Res < 0 || op.Name < 0 || op.Name >= bcNames {
				cls["skip-add-no-reservation"] = true
				continue
			}
			ri := op.Res % len(res)
			s := res[ri]
			name := bcName(op.Name)
			e := &cache.MemoryEntry{Name: name, Data: make([]byte, s), CreatedAt: epoch.Add(time.Duration(op.At) * time.Second)}
			got := mc.Add(e)
			_, exists := entries[name]
			if got == exists {
				return pbt.Fail("BlobMemoryCache: Add(%s) returned %v, entry present before = %v", name, got, exists)
			}
			res = append(res[:ri], res[ri+1:]...)
			if got {
				entries[name] = &bcEntry{size: s, created: op.At, ptr: e}
			} else {
				// documented: the caller releases the reservation when Add reports a duplicate
				mc.ReleaseReservation(s)
				total -= s
				dupAdds++
				cls["duplicate-add-released"] = true
			}
		case "release":
			if len(res) == 0 || op.Res < 0 {
				cls["skip-release-no-reservation"] = true
				continue
			}
			ri := op.Res % len(res)
			s := res[ri]
			mc.ReleaseReservation(s)
			res = append(res[:ri], res[ri+1:]...)
			total -= s
			cls["reservation-abandoned"] = true
		case "remove":
			if op.Name < 0 || op.Name >= bcNames {
				continue
			}
			name := bcName(op.Name)
			mc.Remove(name)
			if e, ok := entries[name]; ok {
				total -= e.size
				delete(entries, name)
				removedPresent++
			} else {
				cls["remove-absent"] = true
			}
		case "batch":
			var names []string
			for _, n := range op.Names {
				if n >= 0 && n < bcNames {
					names = append(names, bcName(n))
				}
			}
			mc.RemoveBatch(names)
			for _, n := range names {
				if e, ok := entries[n]; ok {
					total -= e.size
					delete(entries, n)
					removedPresent++
					cls["batch-removed"] = true
				}
			}
		case "expire":
			if op.TTL < 0 {
				continue
			}
			now := epoch.Add(time.Duration(op.At) * time.Second)
			got := mc.GetExpiredEntries(now, time.Duration(op.TTL)*time.Second)
			gotSet := map[string]bool{}
			for _, n := range got {
				if gotSet[n] {
					return pbt.Fail("BlobMemoryCache: GetExpiredEntries lists %s twice", n)
				}
				gotSet[n] = true
			}
			for n, e := range entries {
				age := op.At - e.created
				// created is even, now is odd, ttl is even: age never equals ttl
				if (age > op.TTL) != gotSet[n] {
					return pbt.Fail("BlobMemoryCache: GetExpiredEntries(ttl %ds) reports %s (age %ds) as expired=%v", op.TTL, n, age, gotSet[n])
				}
			}
			for n := range gotSet {
				if _, ok := entries[n]; !ok {
					return pbt.Fail("BlobMemoryCache: GetExpiredEntries lists %s which is not stored", n)
				}
			}
			mc.RemoveBatch(got)
			for _, n := range got {
				total -= entries[n].size
				delete(entries, n)
				removedPresent++
				cls["expired-removed"] = true
			}
		case "get":
			if op.Name < 0 || op.Name >= bcNames {
				continue
			}
			name := bcName(op.Name)
			got := mc.Get(name)
			e, ok := entries[name]
			if ok != (got != nil) || (ok && got != e.ptr) {
				return pbt.Fail("BlobMemoryCache: Get(%s) returned %v, model present=%v", name, got != nil, ok)
			}
		default:
			continue
		}
		if v := check(i, op); v != nil {
			return *v
		}
	}
	// Epilogue: abandon every reservation, remove every entry: the cache is empty and accounts nothing.
	for _, s := range res {
		mc.ReleaseReservation(s)
		total -= s
	}
	res = nil
	var all []string
	for n, e := range entries {
		all = append(all, n)
		total -= e.size
	}
	sort.Strings(all)
	mc.RemoveBatch(all)
	entries = map[string]*bcEntry{}
	if v := check(len(c.Ops), BCOp{K: "epilogue"}); v != nil {
		return *v
	}
	if refused > 0 {
		cls["reserve-refused"] = true
	}
	return pbt.OK(refused >= 1 && admitted >= 2 && (removedPresent >= 1 || dupAdds >= 1), classList(cls)...)
}

func classList(m map[string]bool) []string {
	var out []string
	for k, v := range m {
		if v {
			out = append(out, k)
		}
	}
	sort.Strings(out)
	return out
}
