package c13

import (
	"errors"
	"fmt"
	"io"
	"os"
	"path/filepath"
	"time"

	"github.com/andres-erbsen/clock"
	"github.com/uber-go/tally"
	"github.com/uber/kraken/core"
	"github.com/uber/kraken/lib/store"
	"pgregory.net/rapid"

	"verif/internal/pbt"
)

// Part "castore": write-through histories through the real caller of the memory
// cache, CAStore.WriteBlobToCacheWithMetaInfo (what a backend refresh does), with
// explicit drain steps and TTL sweeps on a harness clock.

// CSOp kinds: write, drain, ttl.
type CSOp struct {
	K         string `json:"k"`
	Blob      int    `json:"blob,omitempty"`
	SizeDelta int    `json:"size_delta,omitempty"` // write: declared size = stream length + delta
	Corrupt   bool   `json:"corrupt,omitempty"`    // write: stream does not hash to the name (drain to disk will fail and retry)
	FailAt    int    `json:"fail_at,omitempty"`    // write: >0 = the writer returns an error after this many bytes
	FailTimes int    `json:"fail_times,omitempty"` // write: how many invocations of the writer fail (1 = only the memory attempt)
	BadName   bool   `json:"bad_name,omitempty"`   // write: name is not a digest
	Adv       int    `json:"adv,omitempty"`        // ttl: seconds the clock moves before the sweep
	N         int    `json:"n,omitempty"`          // drain: number of drain steps
}

type CSCase struct {
	Max     int      `json:"max"`
	Retries int      `json:"retries"`
	Blobs   [][]byte `json:"blobs"`
	Ops     []CSOp   `json:"ops"`
}

const csTTL = 60 // seconds

func genCS(t *rapid.T) CSCase {
	c := CSCase{
		Max:     rapid.SampledFrom([]int{0, 16, 40, 64, 256}).Draw(t, "max"),
		Retries: rapid.IntRange(1, 2).Draw(t, "retries"),
	}
	nb := rapid.IntRange(1, 3).Draw(t, "nblobs")
	for i := 0; i < nb; i++ {
		l := rapid.IntRange(1, 30).Draw(t, "len")
		b := rapid.SliceOfN(rapid.Byte(), l, l).Draw(t, "blob")
		b[0] = byte(i) // distinct
		c.Blobs = append(c.Blobs, b)
	}
	n := rapid.IntRange(2, 14).Draw(t, "nops")
	for i := 0; i < n; i++ {
		op := CSOp{K: rapid.SampledFrom([]string{"write", "write", "write", "write", "drain", "drain", "ttl"}).Draw(t, "k")}
		switch op.K {
		case "write":
			op.Blob = rapid.IntRange(0, nb-1).Draw(t, "blob")
			switch rapid.IntRange(0, 9).Draw(t, "flavour") {
			case 0, 1:
				op.SizeDelta = rapid.SampledFrom([]int{-5, -1, 1, 3, 8}).Draw(t, "delta")
			case 2:
				op.Corrupt = true
			case 3:
				op.FailAt = rapid.IntRange(1, 10).Draw(t, "failat")
				op.FailTimes = rapid.IntRange(1, 2).Draw(t, "failtimes")
			case 4:
				op.BadName = true
			}
		case "drain":
			op.N = rapid.IntRange(1, 3).Draw(t, "n")
		case "ttl":
			op.Adv = rapid.SampledFrom([]int{10, csTTL + 1, 3 * csTTL}).Draw(t, "adv")
		}
		c.Ops = append(c.Ops, op)
	}
	return c
}

// csClock: time moves only when the case says so, and tickers never fire, so the
// store's background drain and TTL workers stay idle; draining and sweeping happen
// only through the synchronous verif entry points.
type csClock struct {
	*clock.Mock
	idle *clock.Mock
}

func (c *csClock) Ticker(d time.Duration) *clock.Ticker { return c.idle.Ticker(d) }
func (c *csClock) Tick(d time.Duration) <-chan time.Time { return c.idle.Tick(d) }

var errWriter = errors.New("c13: backend download failed")

func runCS(c CSCase) pbt.Verdict {
	if c.Max < 0 || c.Retries < 1 || len(c.Blobs) == 0 || len(c.Blobs) > 4 {
		return pbt.Verdict{Discard: true}
	}
	root, err := os.MkdirTemp("", "c13-")
	if err != nil {
		return pbt.Verdict{Discard: true}
	}
	defer os.RemoveAll(root)
	clk := &csClock{Mock: clock.NewMock(), idle: clock.NewMock()}
	cfg := store.CAStoreConfig{
		UploadDir:     filepath.Join(root, "upload"),
		CacheDir:      filepath.Join(root, "cache"),
		UploadCleanup: store.CleanupConfig{Disabled: true},
		CacheCleanup:  store.CleanupConfig{Disabled: true},
		MemoryCache: store.MemoryCacheConfig{Enabled: true, MaxSize: uint64(c.Max), DrainWorkers: 1,
			DrainMaxRetries: c.Retries, TTL: csTTL * time.Second, TTLInterval: 1000 * time.Hour},
	}
	cas, err := store.NewCAStoreWithClock(cfg, tally.NoopScope, clk)
	if err != nil {
		return pbt.Fail("harness: NewCAStoreWithClock: %v", err)
	}
	defer cas.Close()

	max := uint64(c.Max)
	cls := map[string]bool{}
	// every name a write ever used
	names := map[string]bool{}
	memWrites, oddWrites := 0, 0

	observe := func(i int, what string) *pbt.Verdict {
		total := cas.VerifMemCacheTotalBytes()
		if total > max {
			v := pbt.Fail("CAStore memory cache: accounted bytes %d exceed the configured maximum %d (after op %d %s)", total, max, i, what)
			return &v
		}
		var stored uint64
		n := 0
		for name := range names {
			if !cas.CheckInMemCache(name) {
				continue
			}
			r, err := cas.GetCacheFileReader(name)
			if err != nil {
				v := pbt.Fail("harness: reading memory entry %s: %v", name, err)
				return &v
			}
			b, _ := io.ReadAll(r)
			r.Close()
			stored += uint64(len(b))
			n++
		}
		if stored > max {
			v := pbt.Fail("CAStore memory cache: holds %d bytes of blob data, configured maximum %d (after op %d %s)", stored, max, i, what)
			return &v
		}
		// All calls are synchronous, so no reservation is outstanding between operations.
		if total != stored {
			v := pbt.Fail("CAStore memory cache: accounted bytes %d != bytes of stored entries %d with no write in progress (after op %d %s)", total, stored, i, what)
			return &v
		}
		if got := cas.VerifMemCacheNumEntries(); got != n {
			v := pbt.Fail("CAStore memory cache: NumEntries %d, but %d of the written names are in memory (after op %d %s)", got, n, i, what)
			return &v
		}
		return nil
	}

	for i, op := range c.Ops {
		switch op.K {
		case "write":
			if op.Blob < 0 || op.Blob >= len(c.Blobs) {
				continue
			}
			blob := c.Blobs[op.Blob]
			d, err := core.NewDigester().FromBytes(blob)
			if err != nil {
				return pbt.Fail("harness: digest: %v", err)
			}
			name := d.Hex()
			if op.BadName {
				name = fmt.Sprintf("not-a-digest-%d", op.Blob)
				cls["write-invalid-name"] = true
				oddWrites++
			}
			data := blob
			if op.Corrupt {
				data = append([]byte{}, blob...)
				data[len(data)-1] ^= 0x5a
				cls["write-stream-does-not-hash-to-name"] = true
				oddWrites++
			}
			declared := len(data) + op.SizeDelta
			if declared < 0 {
				declared = 0
			}
			if declared != len(data) {
				cls["write-declared-size-differs-from-stream"] = true
				oddWrites++
			}
			names[name] = true
			wasInMem := cas.CheckInMemCache(name)
			calls := 0
			write := func(w store.FileReadWriter) error {
				calls++
				if op.FailAt > 0 && calls <= op.FailTimes {
					k := op.FailAt
					if k > len(data) {
						k = len(data)
					}
					w.Write(data[:k])
					return errWriter
				}
				_, err := w.Write(data)
				return err
			}
			if op.FailAt > 0 {
				cls["write-writer-fails"] = true
				oddWrites++
			}
			werr := cas.WriteBlobToCacheWithMetaInfo(name, uint64(declared), write, 4)
			if wasInMem {
				cls["write-duplicate-of-memory-entry"] = true
				oddWrites++
			}
			if werr == nil && !wasInMem && cas.CheckInMemCache(name) {
				memWrites++
				cls["write-went-to-memory"] = true
			} else if werr == nil {
				cls["write-went-to-disk"] = true
			} else {
				cls["write-failed"] = true
			}
			if v := observe(i, "write"); v != nil {
				return *v
			}
		case "drain":
			for k := 0; k < op.N && k < 4; k++ {
				if cas.VerifDrainQueueLen() > 0 {
					cls["drain-step"] = true
				}
				cas.VerifDrainNext()
				if v := observe(i, "drain"); v != nil {
					return *v
				}
			}
		case "ttl":
			if op.Adv <= 0 {
				continue
			}
			clk.Add(time.Duration(op.Adv) * time.Second)
			before := cas.VerifMemCacheNumEntries()
			cas.VerifCleanupExpiredMemoryEntries()
			if cas.VerifMemCacheNumEntries() < before {
				cls["ttl-sweep-removed-entries"] = true
			}
			if v := observe(i, "ttl"); v != nil {
				return *v
			}
		}
	}
	// Quiescence: drain until the queue is empty; then nothing is stored and nothing accounted.
	for k := 0; cas.VerifDrainQueueLen() > 0; k++ {
		if k > 200 {
			return pbt.Fail("CAStore memory cache: drain queue still has %d items after 200 drain steps", cas.VerifDrainQueueLen())
		}
		cas.VerifDrainNext()
		if v := observe(len(c.Ops), "final drain"); v != nil {
			return *v
		}
	}
	if t, n := cas.VerifMemCacheTotalBytes(), cas.VerifMemCacheNumEntries(); t != 0 || n != 0 {
		return pbt.Fail("CAStore memory cache: after every write finished and every drain completed %d bytes are still accounted and %d entries stored", t, n)
	}
	return pbt.OK(memWrites >= 1 && oddWrites >= 1, classList(cls)...)
}
