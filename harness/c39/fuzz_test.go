package c39

import (
	"bytes"
	"encoding/json"
	"strings"
	"testing"
	"unicode/utf8"

	"github.com/uber/kraken/core"
	"github.com/uber/kraken/lib/store/metadata"
)

const goodHex = "0123456789abcdef0123456789ABCDEF0123456789abcdef0123456789abcdef"

// FuzzParseDigest: ParseSHA256Digest accepts exactly "sha256:" + 64 hex characters and prints
// back what it parsed.
func FuzzParseDigest(f *testing.F) {
	for _, s := range []string{"sha256:" + goodHex, "sha256:" + goodHex[1:], "sha256:" + goodHex + "0", "sha512:" + goodHex,
		"sha256:" + strings.Repeat("g", 64), "sha256::" + goodHex, "", ":", "sha256:", goodHex, "sha256:" + goodHex + "\n", " sha256:" + goodHex} {
		f.Add(s)
	}
	f.Fuzz(func(t *testing.T, s string) {
		wf := wellFormedDigest(s)
		d, err := core.ParseSHA256Digest(s)
		if (err == nil) != wf {
			t.Fatalf("ParseSHA256Digest(%q): err=%v, well-formed=%v", s, err, wf)
		}
		if wf {
			if d.String() != s || d.Hex() != s[7:] || d.Algo() != "sha256" {
				t.Fatalf("ParseSHA256Digest(%q) prints %q / %q / %q", s, d.String(), d.Hex(), d.Algo())
			}
		}
		if err := core.ValidateSHA256(s); (err == nil) != allHex(s, 64) {
			t.Fatalf("ValidateSHA256(%q): err=%v", s, err)
		}
		if dh, err := core.NewSHA256DigestFromHex(s); (err == nil) != allHex(s, 64) {
			t.Fatalf("NewSHA256DigestFromHex(%q): err=%v", s, err)
		} else if err == nil && (dh.Hex() != s || dh.String() != "sha256:"+s) {
			t.Fatalf("NewSHA256DigestFromHex(%q) prints %q", s, dh.String())
		}
		if utf8.ValidString(s) {
			jb, _ := json.Marshal(s)
			var dj core.Digest
			if err := json.Unmarshal(jb, &dj); (err == nil) != wf {
				t.Fatalf("json.Unmarshal(%s) into Digest: err=%v, well-formed=%v", jb, err, wf)
			} else if err == nil && dj.String() != s {
				t.Fatalf("json.Unmarshal(%s) gives %q", jb, dj.String())
			}
		}
	})
}

// FuzzParseIDs: NewInfoHashFromHex / NewPeerID accept exactly 40 hex characters.
func FuzzParseIDs(f *testing.F) {
	for _, s := range []string{goodHex[:40], goodHex[:39], goodHex[:41], strings.Repeat("z", 40), "", goodHex[:40] + "\n", goodHex[24:64]} {
		f.Add(s)
	}
	f.Fuzz(func(t *testing.T, s string) {
		wf := allHex(s, 40)
		h, err := core.NewInfoHashFromHex(s)
		if (err == nil) != wf {
			t.Fatalf("NewInfoHashFromHex(%q): err=%v, 40-hex=%v", s, err, wf)
		}
		p, err := core.NewPeerID(s)
		if (err == nil) != wf {
			t.Fatalf("NewPeerID(%q): err=%v, 40-hex=%v", s, err, wf)
		}
		if wf {
			want := decodeHex(s)
			if !bytes.Equal(h.Bytes(), want) || !strings.EqualFold(h.Hex(), s) || h.String() != h.Hex() {
				t.Fatalf("NewInfoHashFromHex(%q) = %x / %q", s, h.Bytes(), h.Hex())
			}
			if !bytes.Equal(p[:], want) || !strings.EqualFold(p.String(), s) {
				t.Fatalf("NewPeerID(%q) = %x / %q", s, p[:], p.String())
			}
		}
	})
}

// FuzzMetadataParsers: LastAccessTime / Persist / piece-status Deserialize never panic, reject
// input that holds no value, and what they accept is stable under print -> parse.
func FuzzMetadataParsers(f *testing.F) {
	for _, b := range [][]byte{{}, {0}, {1}, {0x80}, {0xff, 0xff, 0xff, 0xff, 0xff, 0xff, 0xff, 0xff, 0xff, 0x01}, {0xff, 0xff, 0xff, 0xff, 0xff, 0xff, 0xff, 0xff, 0xff, 0x02},
		[]byte("true"), []byte("false"), []byte("1"), []byte("maybe"), {0, 1, 1, 0}, {0, 1, 2, 0xff}} {
		f.Add(b)
	}
	f.Fuzz(func(t *testing.T, b []byte) {
		// LastAccessTime
		want, _, refOK := refVarint(b)
		var l metadata.LastAccessTime
		err := l.Deserialize(b)
		if !refOK && err == nil {
			t.Fatalf("LastAccessTime.Deserialize accepts %x which holds no complete 64-bit varint", b)
		}
		if refOK && err == nil {
			if l.Time.Unix() != want {
				t.Fatalf("LastAccessTime.Deserialize(%x) = %d, varint encodes %d", b, l.Time.Unix(), want)
			}
			if want > -maxAbsSec && want < maxAbsSec {
				ser, err := l.Serialize()
				var l2 metadata.LastAccessTime
				if err != nil || l2.Deserialize(ser) != nil || l2.Time.Unix() != want {
					t.Fatalf("LastAccessTime %d does not survive print->parse (%x)", want, ser)
				}
			}
		}
		// Persist
		var p metadata.Persist
		if err := p.Deserialize(b); err == nil {
			if len(b) == 0 {
				t.Fatalf("Persist.Deserialize accepts empty input")
			}
			ser, _ := p.Serialize()
			var p2 metadata.Persist
			p2.Value = !p.Value
			if err := p2.Deserialize(ser); err != nil || p2.Value != p.Value {
				t.Fatalf("Persist parsed from %q does not survive print->parse (%q)", b, ser)
			}
		}
		// piece status
		md := metadata.CreateFromSuffix("_status")
		if err := md.Deserialize(b); err == nil {
			out, err := md.Serialize()
			if err != nil || len(out) != len(b) {
				t.Fatalf("piece status vector of %d bytes prints as %d bytes (err %v)", len(b), len(out), err)
			}
			for i := range b {
				if b[i] <= 1 && out[i] != b[i] {
					t.Fatalf("piece status %d at %d prints as %d", b[i], i, out[i])
				}
			}
		}
	})
}

// FuzzDigestListJSON: whatever DigestList accepts consists of well-formed digests and survives
// Value -> Scan unchanged.
func FuzzDigestListJSON(f *testing.F) {
	for _, s := range []string{`[]`, `null`, `["sha256:` + goodHex + `"]`, `["sha256:` + goodHex + `","sha256:` + goodHex[1:] + `"]`, `[""]`, `[null]`, `{}`, `"sha256:` + goodHex + `"`, `[1]`} {
		f.Add([]byte(s))
	}
	f.Fuzz(func(t *testing.T, b []byte) {
		var l core.DigestList
		if err := l.Scan(b); err != nil {
			return
		}
		// Which JSON values the elements came from: decode generically. JSON null leaves a
		// zero Digest (encoding/json does not call UnmarshalJSON for null); not asserted.
		var generic []interface{}
		if err := json.Unmarshal(b, &generic); err != nil {
			return
		}
		if len(generic) != len(l) {
			t.Fatalf("DigestList has %d elements, JSON array has %d", len(l), len(generic))
		}
		for i, g := range generic {
			s, ok := g.(string)
			if !ok {
				if g == nil {
					return
				}
				t.Fatalf("DigestList accepted non-string element %v", g)
			}
			if !wellFormedDigest(s) {
				t.Fatalf("DigestList accepted malformed element %q", s)
			}
			if l[i].String() != s {
				t.Fatalf("DigestList element %d = %q, JSON has %q", i, l[i].String(), s)
			}
		}
		v, err := l.Value()
		if err != nil {
			t.Fatalf("Value: %v", err)
		}
		var l2 core.DigestList
		if err := l2.Scan(v); err != nil || len(l2) != len(l) {
			t.Fatalf("Value/Scan: %v", err)
		}
		for i := range l {
			if l2[i] != l[i] {
				t.Fatalf("Value/Scan changed element %d", i)
			}
		}
	})
}
