// C39 — identifiers and metadata serialise and parse losslessly.
//
// Parts:
//
//	digest     Digest / DigestList: round trips (string, hex, JSON, SQL Value/Scan) and the
//	           acceptance grammar "sha256:" + 64 hex characters on mutated strings
//	ids        InfoHash / PeerID: round trips and the 40-hex-character grammar
//	metadata   LastAccessTime, Persist, piece-status vectors, TorrentMeta: Serialize/Deserialize
//	store      piece-status vector, TorrentMeta and Persist written by one store object and
//	           read back by a fresh one over the same directories
//	handshake  handshake bitfields and remote bitfields through conn.Handshaker over net.Pipe
package c39

import (
	"bytes"
	"encoding/json"
	"fmt"
	"strings"
	"testing"
	"time"
	"unicode/utf8"

	"github.com/uber/kraken/core"
	"github.com/uber/kraken/lib/store/metadata"
	_ "github.com/uber/kraken/lib/torrent/storage/agentstorage" // registers the piece-status metadata factory
	"pgregory.net/rapid"

	"verif/internal/pbt"
)

// ---------------------------------------------------------------------------
// reference grammar

func isHex(b byte) bool {
	return (b >= '0' && b <= '9') || (b >= 'a' && b <= 'f') || (b >= 'A' && b <= 'F')
}

func allHex(s string, n int) bool {
	if len(s) != n {
		return false
	}
	for i := 0; i < len(s); i++ {
		if !isHex(s[i]) {
			return false
		}
	}
	return true
}

// wellFormedDigest: "sha256:" followed by 64 hexadecimal characters (property statement).
func wellFormedDigest(s string) bool {
	return strings.HasPrefix(s, "sha256:") && allHex(s[len("sha256:"):], 64)
}

func hexVal(b byte) byte {
	switch {
	case b >= '0' && b <= '9':
		return b - '0'
	case b >= 'a' && b <= 'f':
		return b - 'a' + 10
	default:
		return b - 'A' + 10
	}
}

// decodeHex decodes a string already known to be all hex.
func decodeHex(s string) []byte {
	out := make([]byte, len(s)/2)
	for i := range out {
		out[i] = hexVal(s[2*i])<<4 | hexVal(s[2*i+1])
	}
	return out
}

// ---------------------------------------------------------------------------
// string generators (shared by digest and ids)

var hexAlphabet = []byte("0123456789abcdefABCDEF")
var lowerHex = []byte("0123456789abcdef")

// hostile characters for single-character edits
var hostile = []byte("gGzZxX:;/-_ .\n\t\x00\xff\xc3\xa9+")

func genHex(n int, mixed bool) *rapid.Generator[string] {
	return rapid.Custom(func(t *rapid.T) string {
		alpha := lowerHex
		if mixed {
			alpha = hexAlphabet
		}
		b := make([]byte, n)
		for i := range b {
			b[i] = rapid.SampledFrom(alpha).Draw(t, "h")
		}
		return string(b)
	})
}

// mutate applies one generated edit to a well-formed string. Kind 0 leaves it intact.
func mutate(t *rapid.T, s string) (string, string) {
	kind := rapid.IntRange(0, 13).Draw(t, "mut")
	b := []byte(s)
	pos := func(n int) int {
		if n <= 0 {
			return 0
		}
		// bias to the ends
		return rapid.OneOf(rapid.IntRange(0, n-1), rapid.SampledFrom([]int{0, n - 1, n / 2})).Draw(t, "pos")
	}
	switch kind {
	case 0, 1:
		return s, "intact"
	case 2:
		if len(b) == 0 {
			return s, "intact"
		}
		p := pos(len(b))
		return string(append(b[:p:p], b[p+1:]...)), "drop-char"
	case 3:
		p := pos(len(b) + 1)
		c := rapid.SampledFrom(append(append([]byte{}, hostile...), hexAlphabet...)).Draw(t, "c")
		out := append(append(append([]byte{}, b[:p]...), c), b[p:]...)
		return string(out), "insert-char"
	case 4:
		if len(b) == 0 {
			return s, "intact"
		}
		p := pos(len(b))
		b[p] = rapid.SampledFrom(hostile).Draw(t, "c")
		return string(b), "replace-char-hostile"
	case 5:
		if len(b) == 0 {
			return s, "intact"
		}
		p := pos(len(b))
		b[p] = rapid.SampledFrom(hexAlphabet).Draw(t, "c")
		return string(b), "replace-char-hex"
	case 6:
		suffix := rapid.SampledFrom([]string{"\n", " ", "\x00", "0", "a", "\r\n", ":"}).Draw(t, "suffix")
		return s + suffix, "append"
	case 7:
		prefix := rapid.SampledFrom([]string{" ", "\n", "0", "0x", "sha256:", ":"}).Draw(t, "prefix")
		return prefix + s, "prepend"
	case 8:
		n := rapid.IntRange(0, len(b)).Draw(t, "cut")
		return string(b[:n]), "truncate"
	case 9:
		// keeps the hex part all-hex and of even length: only the exact-length rule rejects it
		k := rapid.SampledFrom([]int{1, 2, 2, 4, 24, 64}).Draw(t, "extend")
		return s + genHex(k, true).Draw(t, "extra"), "extend-hex"
	case 10:
		k := rapid.SampledFrom([]int{1, 2, 2, 4, 8}).Draw(t, "shorten")
		if k > len(b) {
			k = len(b)
		}
		return string(b[:len(b)-k]), "shorten-hex"
	case 11:
		return rapid.String().Draw(t, "free"), "free-string"
	default: // 12, 13: one position takes any of the 256 byte values
		if len(b) == 0 {
			return s, "intact"
		}
		p := pos(len(b))
		b[p] = rapid.Byte().Draw(t, "anybyte")
		return string(b), "replace-char-any-byte"
	}
}

// ---------------------------------------------------------------------------
// part "digest"

type DigestCase struct {
	S    []byte   `json:"s"`    // candidate digest string (bytes: may be invalid UTF-8)
	Mut  string   `json:"mut"`  // how S was derived (label only)
	List [][]byte `json:"list"` // candidate digest list elements
}

func genDigestString(t *rapid.T) (string, string) {
	hexPart := genHex(64, rapid.Bool().Draw(t, "mixed")).Draw(t, "hex")
	if rapid.IntRange(0, 6).Draw(t, "wrongAlgo") == 0 {
		algo := rapid.SampledFrom([]string{"SHA256:", "Sha256:", "sha512:", "sha256", "sha256::", "", "sha1:", "md5:", "sha256 :", "sha25:", "sha2566:"}).Draw(t, "algo")
		return algo + hexPart, "wrong-algo"
	}
	return mutate(t, "sha256:"+hexPart)
}

func genDigest(t *rapid.T) DigestCase {
	s, m := genDigestString(t)
	n := rapid.IntRange(0, 4).Draw(t, "n")
	var list [][]byte
	for i := 0; i < n; i++ {
		var e string
		if rapid.IntRange(0, 5).Draw(t, "bad") == 0 {
			e, _ = genDigestString(t)
		} else {
			e = "sha256:" + genHex(64, rapid.Bool().Draw(t, "mixed")).Draw(t, "hex")
		}
		list = append(list, []byte(e))
	}
	return DigestCase{S: []byte(s), Mut: m, List: list}
}

func runDigest(c DigestCase) pbt.Verdict {
	s := string(c.S)
	wf := wellFormedDigest(s)
	classes := []string{"mut:" + c.Mut}
	if wf {
		classes = append(classes, "well-formed")
		if s != strings.ToLower(s) {
			classes = append(classes, "well-formed:upper-case-hex")
		}
	} else {
		classes = append(classes, "malformed")
	}

	d, err := core.ParseSHA256Digest(s)
	if wf && err != nil {
		return pbt.Fail("ParseSHA256Digest rejects a well-formed digest: %q: %v", s, err)
	}
	if !wf && err == nil {
		return pbt.Fail("ParseSHA256Digest accepts a malformed digest: %q (parsed as %q)", s, d.String())
	}
	if wf {
		hexPart := s[len("sha256:"):]
		if d.String() != s {
			return pbt.Fail("ParseSHA256Digest(%q).String() = %q", s, d.String())
		}
		if d.Hex() != hexPart {
			return pbt.Fail("ParseSHA256Digest(%q).Hex() = %q", s, d.Hex())
		}
		if d.Algo() != "sha256" {
			return pbt.Fail("ParseSHA256Digest(%q).Algo() = %q", s, d.Algo())
		}
		// parse(print(x)) == x
		d2, err := core.ParseSHA256Digest(d.String())
		if err != nil || d2 != d {
			return pbt.Fail("ParseSHA256Digest(d.String()) != d for %q (err %v)", s, err)
		}
		// Construction from the hex part yields the same digest.
		d3, err := core.NewSHA256DigestFromHex(d.Hex())
		if err != nil {
			return pbt.Fail("NewSHA256DigestFromHex rejects the hex of a parsed digest %q: %v", s, err)
		}
		if d3 != d || d3.String() != s {
			return pbt.Fail("NewSHA256DigestFromHex(d.Hex()) = %q differs from parsed digest %q", d3.String(), s)
		}
		// JSON.
		jb, err := json.Marshal(d)
		if err != nil {
			return pbt.Fail("json.Marshal(digest %q): %v", s, err)
		}
		var viaString string
		if err := json.Unmarshal(jb, &viaString); err != nil || viaString != s {
			return pbt.Fail("digest %q marshals to JSON %s, which is not the JSON string of its text", s, jb)
		}
		var dj core.Digest
		if err := json.Unmarshal(jb, &dj); err != nil || dj != d {
			return pbt.Fail("digest %q does not survive JSON round trip (%s, err %v, got %q)", s, jb, err, dj.String())
		}
		// SQL.
		v, err := d.Value()
		if err != nil {
			return pbt.Fail("Digest.Value(%q): %v", s, err)
		}
		vb, ok := v.([]byte)
		if !ok {
			return pbt.Fail("Digest.Value returned %T, Scan only accepts []byte", v)
		}
		var ds core.Digest
		if err := ds.Scan(vb); err != nil || ds != d {
			return pbt.Fail("digest %q does not survive Value/Scan (err %v, got %q)", s, err, ds.String())
		}
	}

	// Hex-only entry points, on the part after the first colon (or the whole string).
	h := s
	if i := strings.IndexByte(s, ':'); i >= 0 {
		h = s[i+1:]
	}
	hexOK := allHex(h, 64)
	if err := core.ValidateSHA256(h); (err == nil) != hexOK {
		return pbt.Fail("ValidateSHA256(%q): err=%v, but 64-hex-characters=%v", h, err, hexOK)
	}
	dh, err := core.NewSHA256DigestFromHex(h)
	if (err == nil) != hexOK {
		return pbt.Fail("NewSHA256DigestFromHex(%q): err=%v, but 64-hex-characters=%v", h, err, hexOK)
	}
	if hexOK && (dh.Hex() != h || dh.String() != "sha256:"+h || dh.Algo() != "sha256") {
		return pbt.Fail("NewSHA256DigestFromHex(%q) prints as %q / %q", h, dh.String(), dh.Hex())
	}

	// JSON acceptance for malformed text (only meaningful when the text is valid UTF-8,
	// otherwise encoding/json itself rewrites it).
	if utf8.ValidString(s) {
		jb, _ := json.Marshal(s)
		var dj core.Digest
		err := json.Unmarshal(jb, &dj)
		if (err == nil) != wf {
			return pbt.Fail("json.Unmarshal(%s) into Digest: err=%v, well-formed=%v", jb, err, wf)
		}
		var dsc core.Digest
		err = dsc.Scan(jb)
		if (err == nil) != wf {
			return pbt.Fail("Digest.Scan(%s): err=%v, well-formed=%v", jb, err, wf)
		}
	}

	// Digest list.
	allWF := true
	var want []string
	for _, e := range c.List {
		if !wellFormedDigest(string(e)) || !utf8.Valid(e) {
			allWF = false
		}
		want = append(want, string(e))
	}
	if len(c.List) > 0 {
		classes = append(classes, "list:non-empty")
		if !allWF {
			classes = append(classes, "list:has-malformed-element")
		}
	}
	utf8OK := true
	for _, e := range c.List {
		if !utf8.Valid(e) {
			utf8OK = false
		}
	}
	if utf8OK {
		if want == nil {
			want = []string{}
		}
		jb, _ := json.Marshal(want)
		var l core.DigestList
		err := json.Unmarshal(jb, &l)
		var l2 core.DigestList
		err2 := l2.Scan(jb)
		if (err == nil) != allWF || (err2 == nil) != allWF {
			return pbt.Fail("DigestList from %s: json err=%v, Scan err=%v, all elements well-formed=%v", jb, err, err2, allWF)
		}
		if allWF {
			for _, got := range []core.DigestList{l, l2} {
				if len(got) != len(want) {
					return pbt.Fail("DigestList from %s has %d elements, want %d", jb, len(got), len(want))
				}
				for i := range got {
					if got[i].String() != want[i] {
						return pbt.Fail("DigestList element %d = %q, want %q", i, got[i].String(), want[i])
					}
				}
			}
			// print -> parse
			v, err := l.Value()
			if err != nil {
				return pbt.Fail("DigestList.Value: %v", err)
			}
			vb, ok := v.([]byte)
			if !ok {
				return pbt.Fail("DigestList.Value returned %T, Scan only accepts []byte", v)
			}
			var l3 core.DigestList
			if err := l3.Scan(vb); err != nil {
				return pbt.Fail("DigestList.Scan(Value()) failed: %v (%s)", err, vb)
			}
			if len(l3) != len(l) {
				return pbt.Fail("DigestList Value/Scan changed length %d -> %d", len(l), len(l3))
			}
			for i := range l {
				if l3[i] != l[i] {
					return pbt.Fail("DigestList Value/Scan changed element %d: %q -> %q", i, l[i].String(), l3[i].String())
				}
			}
			mb, err := json.Marshal(l)
			if err != nil {
				return pbt.Fail("json.Marshal(DigestList): %v", err)
			}
			var l4 core.DigestList
			if err := json.Unmarshal(mb, &l4); err != nil || len(l4) != len(l) {
				return pbt.Fail("DigestList JSON round trip failed: %v (%s)", err, mb)
			}
			for i := range l {
				if l4[i] != l[i] {
					return pbt.Fail("DigestList JSON round trip changed element %d", i)
				}
			}
		}
	}
	// non-trivial: a well-formed digest round-tripped, or a near miss (single edit of a
	// well-formed digest) judged.
	nontrivial := wf || (c.Mut != "free-string" && c.Mut != "intact")
	return pbt.OK(nontrivial, classes...)
}

// ---------------------------------------------------------------------------
// part "ids"

type IDCase struct {
	Raw []byte `json:"raw"` // 20 bytes: value round trip
	S   []byte `json:"s"`   // candidate 40-hex string
	Mut string `json:"mut"`
}

func genID(t *rapid.T) IDCase {
	raw := rapid.SliceOfN(rapid.Byte(), 20, 20).Draw(t, "raw")
	base := genHex(40, rapid.Bool().Draw(t, "mixed")).Draw(t, "hex")
	s, m := mutate(t, base)
	return IDCase{Raw: raw, S: []byte(s), Mut: m}
}

func runID(c IDCase) pbt.Verdict {
	if len(c.Raw) != 20 {
		return pbt.Verdict{Discard: true}
	}
	// value -> text -> value
	var h core.InfoHash
	copy(h[:], c.Raw)
	hs := h.Hex()
	if !allHex(hs, 40) || !bytes.Equal(decodeHex(hs), c.Raw) {
		return pbt.Fail("InfoHash.Hex() = %q is not the hex of %x", hs, c.Raw)
	}
	if h.String() != hs {
		return pbt.Fail("InfoHash.String() = %q differs from Hex() = %q", h.String(), hs)
	}
	if !bytes.Equal(h.Bytes(), c.Raw) {
		return pbt.Fail("InfoHash.Bytes() = %x, want %x", h.Bytes(), c.Raw)
	}
	h2, err := core.NewInfoHashFromHex(hs)
	if err != nil || h2 != h {
		return pbt.Fail("NewInfoHashFromHex(h.Hex()) != h for %x (err %v, got %x)", c.Raw, err, h2.Bytes())
	}
	var p core.PeerID
	copy(p[:], c.Raw)
	ps := p.String()
	if !allHex(ps, 40) || !bytes.Equal(decodeHex(ps), c.Raw) {
		return pbt.Fail("PeerID.String() = %q is not the hex of %x", ps, c.Raw)
	}
	p2, err := core.NewPeerID(ps)
	if err != nil || p2 != p {
		return pbt.Fail("NewPeerID(p.String()) != p for %x (err %v, got %s)", c.Raw, err, p2)
	}

	// text acceptance
	s := string(c.S)
	wf := allHex(s, 40)
	classes := []string{"mut:" + c.Mut}
	if wf {
		classes = append(classes, "well-formed")
		if s != strings.ToLower(s) {
			classes = append(classes, "well-formed:upper-case-hex")
		}
	} else {
		classes = append(classes, "malformed")
	}
	ih, err := core.NewInfoHashFromHex(s)
	if (err == nil) != wf {
		return pbt.Fail("NewInfoHashFromHex(%q): err=%v, but 40-hex-characters=%v", s, err, wf)
	}
	pid, err2 := core.NewPeerID(s)
	if (err2 == nil) != wf {
		return pbt.Fail("NewPeerID(%q): err=%v, but 40-hex-characters=%v", s, err2, wf)
	}
	if wf {
		want := decodeHex(s)
		if !bytes.Equal(ih.Bytes(), want) {
			return pbt.Fail("NewInfoHashFromHex(%q) = %x", s, ih.Bytes())
		}
		if !strings.EqualFold(ih.Hex(), s) {
			return pbt.Fail("NewInfoHashFromHex(%q).Hex() = %q", s, ih.Hex())
		}
		if !bytes.Equal(pid[:], want) {
			return pbt.Fail("NewPeerID(%q) = %x", s, pid[:])
		}
		if !strings.EqualFold(pid.String(), s) {
			return pbt.Fail("NewPeerID(%q).String() = %q", s, pid.String())
		}
	}
	return pbt.OK(wf || (c.Mut != "free-string" && c.Mut != "intact"), classes...)
}

// ---------------------------------------------------------------------------
// part "metadata"

type MetaCase struct {
	Sec     int64  `json:"sec"`     // access time, seconds
	Nsec    int64  `json:"nsec"`    // sub-second part given to the constructor
	LATRaw  []byte `json:"lat_raw"` // arbitrary bytes for LastAccessTime.Deserialize
	Persist bool   `json:"persist"`
	PerRaw  []byte `json:"per_raw"` // arbitrary bytes for Persist.Deserialize
	Status  []byte `json:"status"`  // piece-status vector (0 empty, 1 complete; other values = garbage)
	Blob    int    `json:"blob"`    // blob size for the TorrentMeta round trip
	PL      int64  `json:"pl"`
	Seed    uint64 `json:"seed"`
}

const maxAbsSec = int64(1) << 40

func genMeta(t *rapid.T) MetaCase {
	var c MetaCase
	c.Sec = rapid.OneOf(
		rapid.Int64Range(-130, 130),                  // 1-byte / 2-byte varint boundary (zig-zag 63/64)
		rapid.Int64Range(-8200, 8200),                // 2/3-byte boundary
		rapid.Int64Range(1_500_000_000, 2_000_000_000), // present-day clock values
		rapid.Int64Range(-(maxAbsSec - 1), maxAbsSec-1),
		rapid.Custom(func(t *rapid.T) int64 {
			e := rapid.IntRange(0, 40).Draw(t, "e")
			v := int64(1)<<uint(e) + int64(rapid.IntRange(-1, 1).Draw(t, "d"))
			if v >= maxAbsSec {
				v = maxAbsSec - 1
			}
			if rapid.Bool().Draw(t, "neg") {
				v = -v
			}
			return v
		}),
	).Draw(t, "sec")
	c.Nsec = rapid.OneOf(rapid.Just(int64(0)), rapid.Int64Range(0, 999_999_999)).Draw(t, "nsec")
	c.LATRaw = rapid.OneOf(
		rapid.SliceOfN(rapid.Byte(), 0, 12),
		rapid.SliceOfN(rapid.SampledFrom([]byte{0x80, 0xff, 0x81, 0x00, 0x01, 0x7f}), 0, 12),
	).Draw(t, "latraw")
	c.Persist = rapid.Bool().Draw(t, "persist")
	c.PerRaw = rapid.OneOf(
		rapid.SliceOfN(rapid.Byte(), 0, 6),
		rapid.Map(rapid.SampledFrom([]string{"", "true", "false", "True", "FALSE", "1", "0", "t", "f", "yes", "no", "tru", "truee", " true", "true\n", "false\x00", "2", "null", "\"true\""}), func(s string) []byte { return []byte(s) }),
	).Draw(t, "perraw")
	n := rapid.OneOf(rapid.IntRange(0, 8), rapid.IntRange(0, 300)).Draw(t, "npieces")
	garbage := rapid.IntRange(0, 3).Draw(t, "garbage") == 0
	c.Status = make([]byte, n)
	for i := range c.Status {
		if garbage && rapid.IntRange(0, 4).Draw(t, "g") == 0 {
			c.Status[i] = rapid.SampledFrom([]byte{2, 3, 0xff, 0x80, '0', '1'}).Draw(t, "gb")
		} else {
			c.Status[i] = byte(rapid.IntRange(0, 1).Draw(t, "st"))
		}
	}
	c.Blob = rapid.IntRange(0, 600).Draw(t, "blob")
	c.PL = rapid.Int64Range(1, 64).Draw(t, "pl")
	c.Seed = rapid.Uint64().Draw(t, "seed")
	return c
}

// refVarint is a reference decoder of the documented encoding/binary signed varint:
// little-endian base-128 groups, high bit = continuation, zig-zag sign. ok=false when the
// buffer holds no complete value or the value does not fit in 64 bits.
func refVarint(b []byte) (v int64, n int, ok bool) {
	var u uint64
	for i := 0; i < len(b); i++ {
		if i == 10 {
			return 0, 0, false
		}
		g := uint64(b[i] & 0x7f)
		if i == 9 && b[i] > 1 {
			return 0, 0, false
		}
		u |= g << (7 * uint(i))
		if b[i]&0x80 == 0 {
			x := int64(u >> 1)
			if u&1 != 0 {
				x = ^x
			}
			return x, i + 1, true
		}
	}
	return 0, 0, false
}

func fresh(suffix string) metadata.Metadata {
	return metadata.CreateFromSuffix(suffix)
}

func runMeta(c MetaCase) pbt.Verdict {
	if c.Sec <= -maxAbsSec || c.Sec >= maxAbsSec || c.Nsec < 0 || c.Nsec > 999_999_999 || c.PL <= 0 || c.Blob < 0 || c.Blob > 4096 {
		return pbt.Verdict{Discard: true}
	}
	var classes []string

	// --- LastAccessTime: value -> bytes -> value (second granularity).
	in := time.Unix(c.Sec, c.Nsec)
	lat := metadata.NewLastAccessTime(in)
	ser, err := lat.Serialize()
	if err != nil {
		return pbt.Fail("LastAccessTime.Serialize(%d s): %v", c.Sec, err)
	}
	// The serialized bytes belong to the caller (the store writes them to the sidecar later):
	// serializing other metadata in between must not change them.
	heldLAT := append([]byte(nil), ser...)
	for _, o := range []metadata.Metadata{metadata.NewLastAccessTime(time.Unix(c.Sec+12345, 0)), metadata.NewPersist(!c.Persist), metadata.NewLastAccessTime(time.Unix(1, 0))} {
		if _, err := o.Serialize(); err != nil {
			return pbt.Fail("Serialize of other metadata failed: %v", err)
		}
	}
	if !bytes.Equal(ser, heldLAT) {
		return pbt.Fail("LastAccessTime: the bytes Serialize returned for %d s changed when other metadata was serialized afterwards: were %x, are %x", c.Sec, heldLAT, ser)
	}
	md := fresh(lat.GetSuffix())
	back, ok := md.(*metadata.LastAccessTime)
	if !ok {
		return pbt.Fail("metadata factory for %q returned %T", lat.GetSuffix(), md)
	}
	if err := back.Deserialize(ser); err != nil {
		return pbt.Fail("LastAccessTime.Deserialize rejects Serialize output for %d s (%x): %v", c.Sec, ser, err)
	}
	if back.Time.Unix() != c.Sec || !back.Time.Equal(time.Unix(c.Sec, 0)) {
		return pbt.Fail("LastAccessTime round trip: wrote %d s, read back %d s (%s), bytes %x", c.Sec, back.Time.Unix(), back.Time.UTC(), ser)
	}
	ser2, err := back.Serialize()
	if err != nil || !bytes.Equal(ser, ser2) {
		return pbt.Fail("LastAccessTime: re-serialising the parsed value gives %x, original %x (err %v)", ser2, ser, err)
	}
	if c.Sec < 0 {
		classes = append(classes, "lat:negative")
	}
	if c.Nsec != 0 {
		classes = append(classes, "lat:sub-second-input")
	}

	// --- LastAccessTime: arbitrary bytes.
	{
		want, n, refOK := refVarint(c.LATRaw)
		var l metadata.LastAccessTime
		err := l.Deserialize(c.LATRaw)
		if !refOK {
			classes = append(classes, "lat-raw:malformed")
			if err == nil {
				return pbt.Fail("LastAccessTime.Deserialize accepts bytes that hold no complete 64-bit varint: %x (parsed as %d s)", c.LATRaw, l.Time.Unix())
			}
		} else {
			classes = append(classes, "lat-raw:well-formed")
			if err == nil && l.Time.Unix() != want {
				return pbt.Fail("LastAccessTime.Deserialize(%x) = %d s, the varint encodes %d", c.LATRaw, l.Time.Unix(), want)
			}
			// The exact form Serialize produces (8 bytes, zero padded) must be accepted.
			canonical := len(c.LATRaw) == 8
			for _, b := range c.LATRaw[n:] {
				if b != 0 {
					canonical = false
				}
			}
			if canonical && err != nil {
				return pbt.Fail("LastAccessTime.Deserialize rejects a zero-padded 8-byte varint %x: %v", c.LATRaw, err)
			}
		}
	}

	// --- Persist.
	{
		p := metadata.NewPersist(c.Persist)
		ser, err := p.Serialize()
		if err != nil {
			return pbt.Fail("Persist.Serialize: %v", err)
		}
		heldP := append([]byte(nil), ser...)
		for _, o := range []metadata.Metadata{metadata.NewPersist(!c.Persist), metadata.NewLastAccessTime(in), metadata.NewPersist(!c.Persist)} {
			o.Serialize()
		}
		if !bytes.Equal(ser, heldP) {
			return pbt.Fail("Persist: the bytes Serialize returned for %v changed when other metadata was serialized afterwards: were %q, are %q", c.Persist, heldP, ser)
		}
		md := fresh(p.GetSuffix())
		back, ok := md.(*metadata.Persist)
		if !ok {
			return pbt.Fail("metadata factory for %q returned %T", p.GetSuffix(), md)
		}
		back.Value = !c.Persist // a Deserialize that does nothing must show
		if err := back.Deserialize(ser); err != nil {
			return pbt.Fail("Persist.Deserialize rejects Serialize output %q: %v", ser, err)
		}
		if back.Value != c.Persist {
			return pbt.Fail("Persist round trip: wrote %v, read back %v (bytes %q)", c.Persist, back.Value, ser)
		}
		// arbitrary bytes
		var q metadata.Persist
		err = q.Deserialize(c.PerRaw)
		norm := strings.ToLower(strings.TrimSpace(string(c.PerRaw)))
		plausible := map[string]bool{"1": true, "t": true, "true": true, "y": true, "yes": true, "on": true,
			"0": true, "f": true, "false": true, "n": true, "no": true, "off": true}
		switch {
		case string(c.PerRaw) == "true" || string(c.PerRaw) == "false":
			classes = append(classes, "persist-raw:canonical")
			if err != nil || q.Value != (string(c.PerRaw) == "true") {
				return pbt.Fail("Persist.Deserialize(%q) = %v, err %v", c.PerRaw, q.Value, err)
			}
		case !plausible[norm]:
			classes = append(classes, "persist-raw:garbage")
			if err == nil {
				return pbt.Fail("Persist.Deserialize accepts %q (as %v), which is no spelling of a boolean", c.PerRaw, q.Value)
			}
		default:
			classes = append(classes, "persist-raw:alternative-spelling(no assertion)")
		}
		if err == nil {
			// accepted => print/parse is stable
			s2, _ := q.Serialize()
			var q2 metadata.Persist
			q2.Value = !q.Value
			if err := q2.Deserialize(s2); err != nil || q2.Value != q.Value {
				return pbt.Fail("Persist parsed from %q re-serialises to %q which parses to %v (err %v)", c.PerRaw, s2, q2.Value, err)
			}
		}
	}

	// --- Piece-status vector, through the registered factory (the type is unexported).
	{
		md := fresh("_status")
		if md == nil {
			return pbt.Fail("no metadata factory registered for suffix _status")
		}
		if err := md.Deserialize(c.Status); err != nil {
			return pbt.Fail("piece status Deserialize(%v): %v", c.Status, err)
		}
		out, err := md.Serialize()
		if err != nil {
			return pbt.Fail("piece status Serialize: %v", err)
		}
		if len(out) != len(c.Status) {
			return pbt.Fail("piece status vector of %d pieces re-serialises to %d pieces", len(c.Status), len(out))
		}
		clean := true
		for i := range out {
			if c.Status[i] > 1 {
				clean = false
				continue // garbage status byte: the statement does not say what it becomes
			}
			if out[i] != c.Status[i] {
				return pbt.Fail("piece status vector: piece %d of %d was %d, parses and prints as %d", i, len(out), c.Status[i], out[i])
			}
		}
		if clean {
			classes = append(classes, "status:clean")
		} else {
			classes = append(classes, "status:has-garbage-bytes")
		}
		if len(c.Status) == 0 {
			classes = append(classes, "status:empty")
		}
		// stability: print(parse(print(parse(b)))) == print(parse(b))
		md2 := fresh("_status")
		if err := md2.Deserialize(out); err != nil {
			return pbt.Fail("piece status Deserialize of own output: %v", err)
		}
		out2, _ := md2.Serialize()
		if !bytes.Equal(out, out2) {
			return pbt.Fail("piece status vector not stable under parse/print: %v -> %v", out, out2)
		}
	}

	// --- TorrentMeta.
	{
		data := makeContent(c.Seed, c.Blob)
		mi, err := core.NewMetaInfoFromBytes(digestOf(data), data, c.PL)
		if err != nil {
			return pbt.Fail("harness: NewMetaInfoFromBytes: %v", err)
		}
		if msg := torrentMetaRoundTrip(mi); msg != "" {
			return pbt.Fail("%s", msg)
		}
	}
	return pbt.OK(true, classes...)
}

func torrentMetaRoundTrip(mi *core.MetaInfo) string {
	tm := metadata.NewTorrentMeta(mi)
	ser, err := tm.Serialize()
	if err != nil {
		return fmt.Sprintf("TorrentMeta.Serialize: %v", err)
	}
	md := fresh(tm.GetSuffix())
	back, ok := md.(*metadata.TorrentMeta)
	if !ok {
		return fmt.Sprintf("metadata factory for %q returned %T", tm.GetSuffix(), md)
	}
	if err := back.Deserialize(ser); err != nil {
		return fmt.Sprintf("TorrentMeta.Deserialize rejects Serialize output: %v", err)
	}
	return sameMetaInfo("TorrentMeta round trip", back.MetaInfo, mi)
}

func sameMetaInfo(what string, got, want *core.MetaInfo) string {
	if got == nil {
		return what + ": metainfo is nil"
	}
	if got.InfoHash() != want.InfoHash() || got.Digest() != want.Digest() || got.Length() != want.Length() ||
		got.PieceLength() != want.PieceLength() || got.NumPieces() != want.NumPieces() {
		return fmt.Sprintf("%s: got hash=%s digest=%s length=%d pl=%d pieces=%d, want hash=%s digest=%s length=%d pl=%d pieces=%d", what,
			got.InfoHash(), got.Digest(), got.Length(), got.PieceLength(), got.NumPieces(),
			want.InfoHash(), want.Digest(), want.Length(), want.PieceLength(), want.NumPieces())
	}
	for i := 0; i < want.NumPieces(); i++ {
		if got.GetPieceSum(i) != want.GetPieceSum(i) || got.GetPieceLength(i) != want.GetPieceLength(i) {
			return fmt.Sprintf("%s: piece %d differs", what, i)
		}
	}
	return ""
}

// ---------------------------------------------------------------------------

func TestProp(t *testing.T) {
	pbt.Main(t, pbt.Spec{
		ID: "C39",
		Rule: "digest: 'sha256:'+64 hex (lower or mixed case) with one generated edit (drop/insert/replace a character, append, prepend, truncate, wrong algorithm, free string); compared: ParseSHA256Digest / NewSHA256DigestFromHex / ValidateSHA256 / JSON / SQL Scan accept exactly the strings matching the grammar, and String/Hex/JSON/Value print back the parsed text; DigestList of 0-4 elements likewise. " +
			"ids: 20 random bytes -> Hex/String -> parse; 40-hex strings with one edit: NewInfoHashFromHex/NewPeerID accept exactly 40 hex characters and decode them to the right bytes. " +
			"metadata: access times |t| < 2^40 s (varint boundaries, present-day values, optional sub-second part) through LastAccessTime; arbitrary <=12-byte inputs against a reference varint decoder; Persist both values plus arbitrary bytes; piece-status vectors of 0-300 pieces over {empty, complete} (1 in 4 cases with garbage bytes, asserted only at clean positions) through the registered '_status' factory; TorrentMeta of a small blob. " +
			"store: a download file with 1-40 pieces, a generated subset written through agentstorage.Torrent, Persist and TorrentMeta set; a fresh store object over the same directories must report the same bitfield / metainfo / flag. " +
			"handshake: generated peer id, info hash, digest, bitfield (1-300 bits), 0-4 remote bitfields and namespace sent as a BITFIELD message over net.Pipe into Handshaker.Accept, and the reply of Handshaker.Establish decoded by the harness; 1 in 5 cases carry a malformed peer id / info hash / name, which Accept must reject. " +
			"Non-trivial: digest/ids = well-formed value round-tripped or single-edit near miss judged; metadata/store/handshake = every case. Distinct by case hash.",
		Assumptions: []string{
			"well-formed digest = 'sha256:' + 64 characters of [0-9a-fA-F] (property statement); peer id / info hash = 40 such characters",
			"access times are whole seconds with |t| < 2^40 (DESIGN domain); LastAccessTime.Serialize uses an 8-byte buffer and cannot encode |t| >= 2^55, which no clock produces",
			"a status byte other than 0/1 never comes from Serialize; what it parses to is not asserted",
			"Persist: only 'true'/'false' must be accepted, only non-boolean spellings must be rejected; alternative spellings ('1', 'T', ...) are not asserted either way",
			"harness side of the handshake uses golang/protobuf and willf/bitset directly (trusted third-party encoders)",
		},
		Parts: []pbt.Part{
			pbt.NewPart("digest", 3, genDigest, runDigest),
			pbt.NewPart("ids", 2, genID, runID),
			pbt.NewPart("metadata", 3, genMeta, runMeta),
			pbt.NewPart("store", 1, genStore, runStore),
			pbt.NewPart("handshake", 2, genHandshake, runHandshake),
		},
	})
}
