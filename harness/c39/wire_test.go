package c39

import (
	"crypto/sha256"
	"encoding/binary"
	"encoding/hex"
	"fmt"
	"io"
	"net"
	"os"
	"path/filepath"
	"sort"
	"time"
	"unicode/utf8"

	"github.com/andres-erbsen/clock"
	"github.com/golang/protobuf/proto"
	"github.com/uber-go/tally"
	"github.com/uber/kraken/core"
	"github.com/uber/kraken/gen/go/proto/p2p"
	"github.com/uber/kraken/lib/store"
	"github.com/uber/kraken/lib/store/metadata"
	"github.com/uber/kraken/lib/torrent/networkevent"
	"github.com/uber/kraken/lib/torrent/scheduler/conn"
	"github.com/uber/kraken/lib/torrent/storage"
	"github.com/uber/kraken/lib/torrent/storage/agentstorage"
	"github.com/uber/kraken/lib/torrent/storage/piecereader"
	"github.com/willf/bitset"
	"go.uber.org/zap"
	"pgregory.net/rapid"

	"verif/internal/pbt"
)

// ---------------------------------------------------------------------------
// helpers

func splitmix(x *uint64) uint64 {
	*x += 0x9e3779b97f4a7c15
	z := *x
	z = (z ^ (z >> 30)) * 0xbf58476d1ce4e5b9
	z = (z ^ (z >> 27)) * 0x94d049bb133111eb
	return z ^ (z >> 31)
}

func makeContent(seed uint64, size int) []byte {
	b := make([]byte, size)
	s := seed
	for i := 0; i < size; i += 8 {
		v := splitmix(&s)
		for j := 0; j < 8 && i+j < size; j++ {
			b[i+j] = byte(v >> (8 * uint(j)))
		}
	}
	return b
}

func digestOf(data []byte) core.Digest {
	sum := sha256.Sum256(data)
	d, err := core.NewSHA256DigestFromHex(hex.EncodeToString(sum[:]))
	if err != nil {
		panic("harness: sha256 hex rejected: " + err.Error())
	}
	return d
}

func bitsOf(b *bitset.BitSet) string {
	if b == nil {
		return "<nil>"
	}
	out := make([]byte, b.Len())
	for i := range out {
		if b.Test(uint(i)) {
			out[i] = '1'
		} else {
			out[i] = '0'
		}
	}
	return string(out)
}

func boolsToString(v []bool) string {
	out := make([]byte, len(v))
	for i, x := range v {
		if x {
			out[i] = '1'
		} else {
			out[i] = '0'
		}
	}
	return string(out)
}

func boolsToBitset(v []bool) *bitset.BitSet {
	b := bitset.New(uint(len(v)))
	for i, x := range v {
		if x {
			b.Set(uint(i))
		}
	}
	return b
}

// ---------------------------------------------------------------------------
// part "store": values written by one store object are parsed back by a fresh one

type StoreCase struct {
	Pieces  int    `json:"pieces"`
	PL      int64  `json:"pl"`
	LastLen int64  `json:"last_len"` // length of the last piece, 1..PL
	Write   []int  `json:"write"`    // piece indices written, in this order (duplicates are skipped)
	Persist int    `json:"persist"`  // 0 unset, 1 false, 2 true
	Seed    uint64 `json:"seed"`
}

func genStore(t *rapid.T) StoreCase {
	var c StoreCase
	c.Pieces = rapid.OneOf(rapid.IntRange(1, 4), rapid.IntRange(1, 40), rapid.IntRange(1, 40), rapid.SampledFrom([]int{63, 64, 65, 66, 100, 129})).Draw(t, "pieces")
	c.PL = rapid.Int64Range(1, 32).Draw(t, "pl")
	c.LastLen = rapid.Int64Range(1, c.PL).Draw(t, "last")
	mode := rapid.IntRange(0, 5).Draw(t, "mode")
	switch mode {
	case 0: // nothing
	case 1: // everything (torrent completes and moves to the cache)
		c.Write = rapid.Permutation(seq(c.Pieces)).Draw(t, "order")
	default:
		c.Write = rapid.SliceOfN(rapid.IntRange(0, c.Pieces-1), 1, 2*c.Pieces).Draw(t, "write")
	}
	c.Persist = rapid.IntRange(0, 2).Draw(t, "persist")
	c.Seed = rapid.Uint64().Draw(t, "seed")
	return c
}

func seq(n int) []int {
	out := make([]int, n)
	for i := range out {
		out[i] = i
	}
	return out
}

func runStore(c StoreCase) pbt.Verdict {
	if c.Pieces < 1 || c.Pieces > 160 || c.PL < 1 || c.PL > 64 || c.LastLen < 1 || c.LastLen > c.PL {
		return pbt.Verdict{Discard: true}
	}
	size := int(c.PL)*(c.Pieces-1) + int(c.LastLen)
	data := makeContent(c.Seed, size)
	d := digestOf(data)
	mi, err := core.NewMetaInfoFromBytes(d, data, c.PL)
	if err != nil || mi.NumPieces() != c.Pieces {
		return pbt.Fail("harness: metainfo: %v (pieces %d want %d)", err, mi.NumPieces(), c.Pieces)
	}

	root, err := os.MkdirTemp("", "c39-")
	if err != nil {
		return pbt.Verdict{Discard: true}
	}
	defer os.RemoveAll(root)
	cfg := store.CADownloadStoreConfig{DownloadDir: filepath.Join(root, "download"), CacheDir: filepath.Join(root, "cache")}

	open := func() (*store.CADownloadStore, error) { return store.NewCADownloadStore(cfg, tally.NoopScope) }

	s1, err := open()
	if err != nil {
		return pbt.Fail("harness: NewCADownloadStore: %v", err)
	}
	closed1 := false
	defer func() {
		if !closed1 {
			s1.Close()
		}
	}()
	if err := s1.CreateDownloadFile(d.Hex(), mi.Length()); err != nil {
		return pbt.Fail("harness: CreateDownloadFile: %v", err)
	}
	if err := s1.Any().GetOrSetMetadata(d.Hex(), metadata.NewTorrentMeta(mi)); err != nil {
		return pbt.Fail("harness: set torrent meta: %v", err)
	}
	if c.Persist != 0 {
		if _, err := s1.Any().SetMetadata(d.Hex(), metadata.NewPersist(c.Persist == 2)); err != nil {
			return pbt.Fail("harness: set persist: %v", err)
		}
	}
	t1, err := agentstorage.NewTorrent(s1, mi)
	if err != nil {
		return pbt.Fail("harness: NewTorrent: %v", err)
	}
	want := make([]bool, c.Pieces)
	nWritten := 0
	for _, pi := range c.Write {
		if pi < 0 || pi >= c.Pieces || want[pi] {
			continue
		}
		off := int64(pi) * c.PL
		end := off + mi.GetPieceLength(pi)
		if err := t1.WritePiece(piecereader.NewBuffer(data[off:end]), pi); err != nil {
			return pbt.Fail("harness: WritePiece(%d) of a correct piece failed: %v", pi, err)
		}
		want[pi] = true
		nWritten++
	}
	wantBits := boolsToString(want)
	if got := bitsOf(t1.Bitfield()); got != wantBits {
		return pbt.Fail("harness: live torrent bitfield %s, wrote %s", got, wantBits)
	}
	s1.Close()
	closed1 = true

	// A fresh store object over the same directories ("restart").
	s2, err := open()
	if err != nil {
		return pbt.Fail("reopening the store failed: %v", err)
	}
	defer s2.Close()

	classes := []string{}
	switch {
	case nWritten == 0:
		classes = append(classes, "pieces:none-complete")
	case nWritten == c.Pieces:
		classes = append(classes, "pieces:all-complete(cache)")
	default:
		classes = append(classes, "pieces:partial")
	}
	if c.Pieces > 64 {
		classes = append(classes, "pieces:>64")
	}

	// TorrentMeta parsed back from disk.
	var tm metadata.TorrentMeta
	if err := s2.Any().GetMetadata(d.Hex(), &tm); err != nil {
		return pbt.Fail("stored torrent metainfo cannot be read back: %v", err)
	}
	if msg := sameMetaInfo("stored TorrentMeta", tm.MetaInfo, mi); msg != "" {
		return pbt.Fail("%s", msg)
	}
	// Persist parsed back from disk.
	if c.Persist != 0 {
		p := metadata.NewPersist(c.Persist != 2)
		if err := s2.Any().GetMetadata(d.Hex(), p); err != nil {
			return pbt.Fail("stored persist flag cannot be read back: %v", err)
		}
		if p.Value != (c.Persist == 2) {
			return pbt.Fail("persist flag stored as %v reads back as %v", c.Persist == 2, p.Value)
		}
		classes = append(classes, "persist:set")
	}
	// Piece-status vector parsed back from disk, through both readers of it.
	if nWritten < c.Pieces {
		archive := agentstorage.NewTorrentArchive(tally.NoopScope, s2, nil)
		info, err := archive.Stat("ns", d)
		if err != nil {
			return pbt.Fail("TorrentArchive.Stat after reopen: %v", err)
		}
		if got := bitsOf(info.Bitfield()); got != wantBits {
			return pbt.Fail("piece status vector: wrote %s, TorrentArchive.Stat after reopen reports %s", wantBits, got)
		}
	}
	t2, err := agentstorage.NewTorrent(s2, tm.MetaInfo)
	if err != nil {
		return pbt.Fail("NewTorrent after reopen: %v", err)
	}
	if got := bitsOf(t2.Bitfield()); got != wantBits {
		return pbt.Fail("piece status vector: wrote %s, torrent restored after reopen reports %s", wantBits, got)
	}
	return pbt.OK(true, classes...)
}

// ---------------------------------------------------------------------------
// part "handshake"

type RemoteBF struct {
	Peer []byte `json:"peer"` // 20 bytes
	Bits []bool `json:"bits"`
}

type HandshakeCase struct {
	LocalPeer  []byte     `json:"local_peer"`  // id of the kraken-side handshaker (20 bytes)
	RemotePeer []byte     `json:"remote_peer"` // id the harness announces (20 bytes)
	InfoHash   []byte     `json:"info_hash"`   // 20 bytes announced by the harness
	Name       []byte     `json:"name"`        // 32 bytes announced by the harness (digest hex)
	UpperName  bool       `json:"upper_name"`  // announce the digest hex in upper case
	Bits       []bool     `json:"bits"`        // bitfield announced by the harness
	Remotes    []RemoteBF `json:"remotes"`     // remote bitfields announced by the harness
	Namespace  string     `json:"namespace"`
	Malform    int        `json:"malform"` // 0 none; 1 peer id, 2 info hash, 3 name: break that field
	BadText    string     `json:"bad_text"`

	// Reply direction (Establish): torrent of ReplyPieces pieces with ReplyBits complete.
	ReplyBits    []bool     `json:"reply_bits"`
	ReplyRemotes []RemoteBF `json:"reply_remotes"`
	Seed         uint64     `json:"seed"`
}

func genBits(t *rapid.T, label string) []bool {
	n := rapid.OneOf(
		rapid.IntRange(1, 10),
		rapid.SampledFrom([]int{1, 7, 8, 9, 63, 64, 65, 127, 128, 129, 192, 256}),
		rapid.IntRange(1, 300),
	).Draw(t, label+"N")
	mode := rapid.IntRange(0, 3).Draw(t, label+"Mode")
	out := make([]bool, n)
	for i := range out {
		switch mode {
		case 0:
			out[i] = false
		case 1:
			out[i] = true
		default:
			out[i] = rapid.Bool().Draw(t, label)
		}
	}
	return out
}

func genRemotes(t *rapid.T, label string) []RemoteBF {
	n := rapid.IntRange(0, 4).Draw(t, label+"N")
	seen := map[string]bool{}
	var out []RemoteBF
	for i := 0; i < n; i++ {
		p := rapid.SliceOfN(rapid.Byte(), 20, 20).Draw(t, label+"Peer")
		if seen[string(p)] {
			continue
		}
		seen[string(p)] = true
		out = append(out, RemoteBF{Peer: p, Bits: genBits(t, label+"Bits")})
	}
	return out
}

func genHandshake(t *rapid.T) HandshakeCase {
	var c HandshakeCase
	b20 := rapid.SliceOfN(rapid.Byte(), 20, 20)
	c.LocalPeer = b20.Draw(t, "local")
	c.RemotePeer = b20.Draw(t, "remote")
	c.InfoHash = b20.Draw(t, "ih")
	c.Name = rapid.SliceOfN(rapid.Byte(), 32, 32).Draw(t, "name")
	c.UpperName = rapid.IntRange(0, 3).Draw(t, "upper") == 0
	c.Bits = genBits(t, "bits")
	c.Remotes = genRemotes(t, "rb")
	c.Namespace = rapid.OneOf(rapid.Just(""), rapid.StringMatching(`[a-z0-9/_.-]{1,20}`), rapid.String()).Draw(t, "ns")
	if rapid.IntRange(0, 4).Draw(t, "malformed") == 0 {
		c.Malform = rapid.IntRange(1, 3).Draw(t, "which")
		n := 40
		if c.Malform == 3 {
			n = 64
		}
		base := genHex(n, false).Draw(t, "badbase")
		for tries := 0; ; tries++ {
			s, _ := mutate(t, base)
			if !allHex(s, n) && utf8Valid(s) {
				c.BadText = s
				break
			}
			if tries > 20 {
				c.BadText = base[1:]
				break
			}
		}
	}
	c.ReplyBits = genBits(t, "reply")
	c.ReplyRemotes = genRemotes(t, "replyRb")
	c.Seed = rapid.Uint64().Draw(t, "seed")
	return c
}

func utf8Valid(s string) bool { return utf8.ValidString(s) }

type nopEvents struct{}

func (nopEvents) ConnClosed(*conn.Conn) {}

const ioTimeout = 60 * time.Second

func writeFrame(nc net.Conn, m *p2p.Message) error {
	data, err := proto.Marshal(m)
	if err != nil {
		return fmt.Errorf("marshal: %v", err)
	}
	var hdr [4]byte
	binary.BigEndian.PutUint32(hdr[:], uint32(len(data)))
	nc.SetWriteDeadline(time.Now().Add(ioTimeout))
	if _, err := nc.Write(append(hdr[:], data...)); err != nil {
		return err
	}
	return nil
}

func readFrame(nc net.Conn) (*p2p.Message, error) {
	nc.SetReadDeadline(time.Now().Add(ioTimeout))
	var hdr [4]byte
	if _, err := io.ReadFull(nc, hdr[:]); err != nil {
		return nil, err
	}
	n := binary.BigEndian.Uint32(hdr[:])
	if n > 1<<20 {
		return nil, fmt.Errorf("frame of %d bytes", n)
	}
	data := make([]byte, n)
	if _, err := io.ReadFull(nc, data); err != nil {
		return nil, err
	}
	m := new(p2p.Message)
	if err := proto.Unmarshal(data, m); err != nil {
		return nil, fmt.Errorf("unmarshal: %v", err)
	}
	return m, nil
}

func toPeerID(b []byte) core.PeerID {
	var p core.PeerID
	copy(p[:], b)
	return p
}

func upperHex(b []byte) string {
	const digits = "0123456789ABCDEF"
	out := make([]byte, 0, len(b)*2)
	for _, x := range b {
		out = append(out, digits[x>>4], digits[x&15])
	}
	return string(out)
}

func describeRemotes(rb conn.RemoteBitfields) string {
	var keys []string
	for p, b := range rb {
		keys = append(keys, p.String()+"="+bitsOf(b))
	}
	sort.Strings(keys)
	return fmt.Sprint(keys)
}

func runHandshake(c HandshakeCase) pbt.Verdict {
	if len(c.LocalPeer) != 20 || len(c.RemotePeer) != 20 || len(c.InfoHash) != 20 || len(c.Name) != 32 ||
		len(c.Bits) == 0 || len(c.Bits) > 2000 || len(c.ReplyBits) == 0 || len(c.ReplyBits) > 2000 || len(c.Remotes) > 8 || len(c.ReplyRemotes) > 8 {
		return pbt.Verdict{Discard: true}
	}
	for _, r := range append(append([]RemoteBF{}, c.Remotes...), c.ReplyRemotes...) {
		if len(r.Peer) != 20 || len(r.Bits) > 2000 {
			return pbt.Verdict{Discard: true}
		}
	}
	if !utf8Valid(c.Namespace) || !utf8Valid(c.BadText) {
		return pbt.Verdict{Discard: true} // proto3 strings must be valid UTF-8
	}

	h, err := conn.NewHandshaker(conn.Config{HandshakeTimeout: ioTimeout}, tally.NoopScope, clock.New(),
		networkevent.NewTestProducer(), toPeerID(c.LocalPeer), nopEvents{}, zap.NewNop().Sugar())
	if err != nil {
		return pbt.Fail("harness: NewHandshaker: %v", err)
	}

	// Message announced by the harness.
	nameHex := hex.EncodeToString(c.Name)
	if c.UpperName {
		nameHex = upperHex(c.Name)
	}
	peerText := hex.EncodeToString(c.RemotePeer)
	ihText := hex.EncodeToString(c.InfoHash)
	switch c.Malform {
	case 1:
		peerText = c.BadText
	case 2:
		ihText = c.BadText
	case 3:
		nameHex = c.BadText
	}
	if (c.Malform == 1 && allHex(peerText, 40)) || (c.Malform == 2 && allHex(ihText, 40)) || (c.Malform == 3 && allHex(nameHex, 64)) {
		return pbt.Verdict{Discard: true}
	}
	bf, err := boolsToBitset(c.Bits).MarshalBinary()
	if err != nil {
		return pbt.Fail("harness: bitset marshal: %v", err)
	}
	rbBytes := map[string][]byte{}
	for _, r := range c.Remotes {
		b, err := boolsToBitset(r.Bits).MarshalBinary()
		if err != nil {
			return pbt.Fail("harness: bitset marshal: %v", err)
		}
		rbBytes[hex.EncodeToString(r.Peer)] = b
	}
	msg := &p2p.Message{Type: p2p.Message_BITFIELD, Bitfield: &p2p.BitfieldMessage{
		PeerID: peerText, Name: nameHex, InfoHash: ihText, BitfieldBytes: bf, RemoteBitfieldBytes: rbBytes, Namespace: c.Namespace,
	}}

	mine, theirs := net.Pipe()
	defer mine.Close()
	defer theirs.Close()

	type acceptRes struct {
		pc    *conn.PendingConn
		err   error
		panic interface{}
	}
	ach := make(chan acceptRes, 1)
	go func() {
		var r acceptRes
		defer func() {
			if p := recover(); p != nil {
				r.panic = p
			}
			ach <- r
		}()
		r.pc, r.err = h.Accept(theirs)
	}()
	werr := writeFrame(mine, msg)
	ar := <-ach
	if ar.panic != nil {
		return pbt.Fail("Handshaker.Accept panicked: %v", ar.panic)
	}
	if werr != nil {
		// The acceptor never consumed the frame: infrastructure, not a verdict.
		return pbt.Verdict{Discard: true}
	}

	classes := []string{fmt.Sprintf("remotes:%d", len(c.Remotes))}
	if len(c.Bits)%64 == 0 {
		classes = append(classes, "bits:multiple-of-64")
	}
	if len(c.Bits) > 64 {
		classes = append(classes, "bits:>64")
	}
	if c.Malform != 0 {
		classes = append(classes, "malformed-field")
		if ar.err == nil {
			field := []string{"", "peer id", "info hash", "name"}[c.Malform]
			return pbt.Fail("Handshaker.Accept accepts a handshake whose %s is malformed: %q", field, c.BadText)
		}
		return pbt.OK(true, classes...)
	}
	if ar.err != nil {
		return pbt.Fail("Handshaker.Accept rejects a well-formed handshake: %v", ar.err)
	}
	pc := ar.pc
	if pc.PeerID() != toPeerID(c.RemotePeer) {
		return pbt.Fail("handshake peer id: sent %x, parsed %s", c.RemotePeer, pc.PeerID())
	}
	if pc.InfoHash().Hex() != hex.EncodeToString(c.InfoHash) {
		return pbt.Fail("handshake info hash: sent %x, parsed %s", c.InfoHash, pc.InfoHash())
	}
	if pc.Digest().Hex() != nameHex || pc.Digest().String() != "sha256:"+nameHex {
		return pbt.Fail("handshake digest: sent %s, parsed %s", nameHex, pc.Digest())
	}
	if pc.Namespace() != c.Namespace {
		return pbt.Fail("handshake namespace: sent %q, parsed %q", c.Namespace, pc.Namespace())
	}
	if got := bitsOf(pc.Bitfield()); got != boolsToString(c.Bits) {
		return pbt.Fail("handshake bitfield: sent %s (%d bits), parsed %s (%d bits)", boolsToString(c.Bits), len(c.Bits), got, len(got))
	}
	gotRB := pc.RemoteBitfields()
	if len(gotRB) != len(c.Remotes) {
		return pbt.Fail("handshake remote bitfields: sent %d entries, parsed %d (%s)", len(c.Remotes), len(gotRB), describeRemotes(gotRB))
	}
	for _, r := range c.Remotes {
		b, ok := gotRB[toPeerID(r.Peer)]
		if !ok {
			return pbt.Fail("handshake remote bitfields: entry for peer %x missing (%s)", r.Peer, describeRemotes(gotRB))
		}
		if got := bitsOf(b); got != boolsToString(r.Bits) {
			return pbt.Fail("handshake remote bitfield of peer %x: sent %s, parsed %s", r.Peer, boolsToString(r.Bits), got)
		}
	}

	// Reply direction: Establish prints a handshake for a torrent; the harness parses it.
	n := len(c.ReplyBits)
	data := makeContent(c.Seed, n)
	mi, err := core.NewMetaInfoFromBytes(digestOf(data), data, 1)
	if err != nil || mi.NumPieces() != n {
		return pbt.Fail("harness: metainfo for reply: %v", err)
	}
	info := storage.NewTorrentInfo(mi, boolsToBitset(c.ReplyBits))
	replyRB := conn.RemoteBitfields{}
	for _, r := range c.ReplyRemotes {
		replyRB[toPeerID(r.Peer)] = boolsToBitset(r.Bits)
	}
	type estRes struct {
		c     *conn.Conn
		err   error
		panic interface{}
	}
	ech := make(chan estRes, 1)
	go func() {
		var r estRes
		defer func() {
			if p := recover(); p != nil {
				r.panic = p
			}
			ech <- r
		}()
		r.c, r.err = h.Establish(pc, info, replyRB)
	}()
	reply, rerr := readFrame(mine)
	er := <-ech
	if er.c != nil {
		defer er.c.Close()
	}
	if er.panic != nil {
		return pbt.Fail("Handshaker.Establish panicked: %v", er.panic)
	}
	if er.err != nil {
		return pbt.Fail("Handshaker.Establish failed on a healthy pipe: %v", er.err)
	}
	if rerr != nil {
		return pbt.Fail("the handshake sent by Establish cannot be decoded as a length-prefixed p2p message: %v", rerr)
	}
	if reply.Type != p2p.Message_BITFIELD || reply.Bitfield == nil {
		return pbt.Fail("Establish sent a %s message without bitfield body", reply.Type)
	}
	rb := reply.Bitfield
	if rb.PeerID != hex.EncodeToString(c.LocalPeer) {
		return pbt.Fail("Establish printed peer id %q, handshaker's id is %x", rb.PeerID, c.LocalPeer)
	}
	if rb.InfoHash != mi.InfoHash().Hex() {
		return pbt.Fail("Establish printed info hash %q, torrent has %s", rb.InfoHash, mi.InfoHash().Hex())
	}
	if rb.Name != mi.Digest().Hex() {
		return pbt.Fail("Establish printed name %q, torrent digest is %s", rb.Name, mi.Digest().Hex())
	}
	gotBits := bitset.New(0)
	if err := gotBits.UnmarshalBinary(rb.BitfieldBytes); err != nil {
		return pbt.Fail("Establish printed a bitfield that does not decode: %v", err)
	}
	if got := bitsOf(gotBits); got != boolsToString(c.ReplyBits) {
		return pbt.Fail("Establish bitfield: torrent has %s, printed %s", boolsToString(c.ReplyBits), got)
	}
	if len(rb.RemoteBitfieldBytes) != len(c.ReplyRemotes) {
		return pbt.Fail("Establish printed %d remote bitfields, given %d", len(rb.RemoteBitfieldBytes), len(c.ReplyRemotes))
	}
	for _, r := range c.ReplyRemotes {
		raw, ok := rb.RemoteBitfieldBytes[hex.EncodeToString(r.Peer)]
		if !ok {
			return pbt.Fail("Establish: remote bitfield of peer %x missing from the printed handshake", r.Peer)
		}
		b := bitset.New(0)
		if err := b.UnmarshalBinary(raw); err != nil {
			return pbt.Fail("Establish printed a remote bitfield that does not decode: %v", err)
		}
		if got := bitsOf(b); got != boolsToString(r.Bits) {
			return pbt.Fail("Establish remote bitfield of peer %x: given %s, printed %s", r.Peer, boolsToString(r.Bits), got)
		}
	}
	classes = append(classes, fmt.Sprintf("reply-remotes:%d", len(c.ReplyRemotes)))
	return pbt.OK(true, classes...)
}
