#!/bin/sh
# Builds every check's test binary once (offline) so that the first quick run only relinks.
cd "$(dirname "$0")/harness" || exit 1
export GOFLAGS=-mod=mod GOPROXY=off GOTOOLCHAIN=auto
unset GOSUMDB
mkdir -p ../.bin
go build -tags verif ./... || echo "setup: go build reported errors (individual checks will report them)"
ls -d c[0-9][0-9] 2>/dev/null | xargs -P 6 -I{} sh -c 'go test -c -tags verif -o ../.bin/{}.test ./{} || echo "setup: build of {} failed"'
echo "setup done"
exit 0
