#!/bin/sh
# Builds every check's test binary once (offline) so that the first quick run only relinks.
set -e
cd "$(dirname "$0")/harness"
export GOFLAGS=-mod=mod GOPROXY=off GOTOOLCHAIN=auto
unset GOSUMDB
mkdir -p ../.bin
pkgs=$(ls -d c[0-9][0-9] 2>/dev/null)
# compile shared dependencies first, then the per-property binaries in parallel
go build -tags verif ./... 
for p in $pkgs; do
  ( go test -c -tags verif -o ../.bin/$p.test ./$p || echo "setup: build of $p failed" ) &
  # at most 6 concurrent links
  while [ "$(jobs -r | wc -l)" -ge 6 ]; do sleep 0.2; done
done
wait
echo "setup done"
