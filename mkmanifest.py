#!/usr/bin/env python3
"""Regenerates MANIFEST.json from manifest_src.json (claimed checks) and properties.jsonl."""
import json, os, subprocess
R = os.path.dirname(os.path.abspath(__file__))
src = json.load(open(os.path.join(R, "manifest_src.json")))
props = [json.loads(l) for l in open(os.path.join(R, "properties.jsonl")) if l.strip()]
checks, na = [], []
for p in props:
    pid = p["id"]
    e = src["checks"].get(pid)
    if e and os.path.isdir(os.path.join(R, "harness", pid.lower())):
        c = {
            "property_id": pid,
            "quick_cmd": "./check %s --tier quick" % pid,
            "thorough_cmd": "./check %s --tier thorough" % pid,
            "evidence_file": "/verif/evidence/%s.json" % pid,
            "replay_cmd_template": "./check %s --replay {path}" % pid,
            "engine": e.get("engine", "pbt"),
            "level_claimed": {"category": e.get("level", "exploration"), "text": e["text"], "design_ref": "DESIGN.md §4 " + pid},
            "level_note": e["note"],
            "technique": e["technique"],
        }
        checks.append(c)
    else:
        na.append({"property_id": pid, "reason": src.get("not_applicable", {}).get(pid, "check not built yet; nothing is claimed for this property")})
try:
    commits = subprocess.run(["git", "-C", "/repo", "log", "--format=%H %s"], capture_output=True, text=True).stdout.splitlines()
except Exception:
    commits = []
hook_commits = [l.split()[0] for l in commits if " verif-hook:" in l or l.split(" ", 1)[1].startswith("verif-hook")]
m = {
    "version": 1,
    "setup_cmd": "./setup.sh",
    "hooks": {
        "guard": "verif",
        "enable": "go build tag: every check builds /repo through `go test -tags verif` (the harness module replaces github.com/uber/kraken with /repo)",
        "baseline_off_cmd": "cd /repo && GOFLAGS=-mod=mod go test -vet=off -count=1 -timeout 25m ./...",
        "source_commits": hook_commits,
        "add_only": True,
    },
    "engines": src.get("engines", []),
    "checks": checks,
    "notes": src.get("notes", ""),
    "not_applicable": na,
}
json.dump(m, open(os.path.join(R, "MANIFEST.json"), "w"), indent=1)
print("claimed", len(checks), "not claimed", len(na))
