#!/bin/bash
# Runs every registered check once (quick by default) and prints one line per check.
tier=${1:-quick}
cd "$(dirname "$0")"
for id in $(jq -r '.checks[].property_id' MANIFEST.json); do
  t0=$(date +%s)
  out=$(./check $id --tier $tier 2>&1); rc=$?
  echo "$id rc=$rc $(( $(date +%s) - t0 ))s $(echo "$out" | grep -E '^(OK|VIOLATION|INCONCLUSIVE|KNOWN)' | head -2 | cut -c1-160 | tr '\n' ' ')"
done
